"""Per-property configuration of bin/check."""

NOT_APPLICABLE = {}
HOOK_COMMITS = ["321e58c", "2cc3ec1", "1b3310c"]

ALLOWED_AXIOMS = {"propext", "Classical.choice", "Quot.sound"}

COMMON_TRUSTED = [
    "Lean 4.33.0 kernel (thorough tier: re-checked by leanchecker); axioms allowed: propext, Classical.choice, Quot.sound; no sorry/admit/native_decide/bv_decide/own axioms (source audit + #print axioms on every run)",
    "the statements in lean/SycVerif/Props/*.lean and Spec/*.lean (to be read by a human)",
    "hand-written Lean model tied to /repo by the correspondence check only: agreement is shown on the cases run (counts in this file), not proved",
    "Rust harness (generators, canonicaliser, implementation-side oracle), Python orchestrator, Lean compiler for the driver binary",
]

R = "SycVerif.Route."
CHECKS = {
    "C17": {
        "manifest_text": "Lean 4 theorems over a model of RoutePath::match_path, Route::match_path and the derive(Route) expansion: matcher succeeds iff the path fits (declarative Fits relation, shortest-run <p..>), fit unique, captures align and reproduce the path, URL query/fragment ignored, derived enums never panic and pick the first accepting variant — all patterns/paths/enums, no bound. Model tied to /repo by exhaustive+random correspondence on the real code.",
        "manifest_note": "Trusted: Lean kernel; hand model <-> code agreement only on the cases run (~140k quick, exhaustive blocks listed in evidence); u32::from_str modelled; derive macro's compile-time checks assumed.",
        "lean_modules": ["SycVerif.Props.C17"],
        "theorems": [R + "C17_matchPath_iff_fits", R + "C17_fit_unique", R + "C17_captures_align",
                     R + "C17_captures_reproduce", R + "C17_urlSegments_clean",
                     R + "C17_url_ignores_query_fragment", R + "C17_matchRoute_total", R + "C17_matchRoute_first",
                     R + "C17_matchRoute_complete", R + "C17_matchRoute_notFound"],
        "engines": [{"harness": "native", "engine": "route"}],
        "status": "full statement proved over the model (all patterns, all paths, all enums of the modelled shape)",
        "rule": "exhaustive: every well-formed pattern over {a,b,<p>,<p..>} (len<=3 quick / <=4 thorough) x every path over {a,b,c} (len<=4 / <=5); "
                "random patterns/paths with ?,#,/,empty and non-ASCII segments; every segment list over each derived enum's vocabulary (len<=4..7); "
                "random URL strings. distinct = distinct request line; non-trivial = pattern has a dynamic segment / URL yields >=1 segment",
        "exhaustive_blocks_quick": "patterns len<=3 x paths len<=4 (alphabets above); enum vocabularies up to len 4/5/5",
        "exhaustive_blocks_thorough": "patterns len<=4 x paths len<=5; enum vocabularies up to len 5/7/7",
        "trusted": ["u32::from_str modelled by parseU32 (optional '+', ASCII digits, < 2^32); String::from_str is the identity",
                    "derive(Route) expansion is modelled (matchVariants/parseFields), the three harness enums are transcribed by hand into Driver/Route.lean; the macro's compile-time checks (field count) are assumed as WFVariant"],
        "assumptions": ["patterns satisfy the property's own premise: <p..> is last or followed by a static segment"],
    },
    "C19": {
        "manifest_text": "Lerp: Lean theorems (endpoints, betweenness, arrays pointwise) for the repaired integer lerp over EVERY round-to-nearest arithmetic whose representable set contains the integers up to 2^24; the same polymorphic definition runs on Float32 in the driver and agrees bit for bit with the real code on all 8-bit pairs. Easing: definitions REGENERATED from easing.rs by a translator on every run; endpoints and well-definedness on [0,1] proved over the reals for every function of the regenerated table; f32 bounds enumerated on the real code (partial).",
        "manifest_note": "Partial: the binary32 statements about easing (1e-5, finiteness) are enumerated, not proved. Trusted: translator, IEEE round-to-nearest as an instance of Nearest, real semantics of sqrt/sin/cos/rpow, libm.",
        "pre_lean": "python3 tools/easing_translate.py /repo/packages/sycamore/src/easing.rs lean/SycVerif/Model/EasingGen.lean",
        "lean_modules": ["SycVerif.Props.C19", "SycVerif.Props.C19Easing"],
        "theorems": ["SycVerif.Lerp.C19_lerp_between", "SycVerif.Lerp.C19_lerp_zero", "SycVerif.Lerp.C19_lerp_one",
                     "SycVerif.Lerp.C19_lerpArr_pointwise",
                     "SycVerif.Easing.C19_easing_endpoints", "SycVerif.Easing.C19_easing_welldefined"]
                    + ["SycVerif.Easing.%s_chk_val" % n for n in
                       "linear quad_in quad_out quad_inout cubic_in cubic_out cubic_inout quart_in quart_out quart_inout quint_in quint_out quint_inout circ_in circ_out circ_inout expo_in expo_out expo_inout sine_in sine_out sine_inout bounce_out bounce_in bounce_inout".split()],
        "engines": [{"harness": "native", "engine": "num"}],
        "status": "lerp: full statement proved for every round-to-nearest arithmetic (Nearest R) — endpoints, betweenness; totality is by construction of the repaired model (no checked integer operation left) + exhaustive 8-bit correspondence. easing: endpoints and well-definedness on [0,1] proved over the reals for the definitions regenerated from easing.rs; the f32 statements (|f(0)|,|f(1)-1| <= 1e-5, finite on [0,1]) are NOT proved: enumerated on the real code (quick: 2^20+1 grid + 2^22 random bit patterns per function; thorough: every f32 in [0,1])",
        "partial": [{"theorem": "C19_easing_endpoints / C19_easing_welldefined", "missing": "statement in binary32 (error bound 1e-5, finiteness): IEEE-754 rounding and libm sin/cos/pow are outside the proof; checked by enumeration on the implementation"},
                    {"theorem": "C19_lerp_*", "missing": "that IEEE-754 binary32 round-to-nearest-even is an instance of Nearest (it is the definition of the rounding mode; not derived from Lean's Float32.Model, which ships without lemmas)"}],
        "rule": "per-case lines: every pair of u8 and of i8 x 4 (quick) / 9 (thorough) scalars; digests: for every 8-bit start value all targets x scalars j/k (k=16 quick, 256 thorough); boundary+random pairs of i16..u64 (model) and up to i128/usize (implementation only), i32 arrays; easing: special points, 200 random points, k/2^16 (quick) or k/2^20 (thorough) grid digest per function, thorough: every 64th f32 bit pattern of [0,1] vs the model and every f32 of [0,1] on the implementation. non-trivial = a != b and 0 < t < 1 (lerp) / 0 < t < 1 (easing); distinct = distinct request line",
        "exhaustive_blocks_quick": "all 2*65536 8-bit pairs x scalars {0,1,0.5,0.25}; all 8-bit pairs x scalars j/16 (digest)",
        "exhaustive_blocks_thorough": "all 8-bit pairs x 9 scalars and x j/256 (digest); every f32 in [0,1] for all 25 easing functions (implementation-side oracle)",
        "trusted": ["tools/easing_translate.py (refuses anything outside its grammar); the generated definitions are compared bit for bit with the real functions through the Float32 instance (same libm)",
                    "IEEE-754 binary32 arithmetic: modelled as an arbitrary round-to-nearest onto a set containing the integers up to 2^24 (proofs) and run as Lean Float32 (correspondence, bit-exact)",
                    "real-number semantics of sqrt/sin/cos/rpow and the real pi for the easing proofs"],
        "assumptions": ["|a|,|b| <= 2^23 for the exact lerp claims (the property's own premise)"],
    },
    "C18": {
        "manifest_text": "Lean theorems over a model of is_dyn/is_dyn_pattern/is_dyn_block/is_dyn_macro with one constructor per syn::Expr (40), syn::Pat (17) and syn::Stmt (4) variant: every expression that contains a call, method call, macro other than view!, await, ? or assignment outside closures/const blocks/items is emitted as a reactive closure (C18_conservative), and whatever is emitted static is evaluation-free (C18_static_sound) — mutual structural induction, all expressions, no depth bound. Tied to /repo by running the real Codegen (direct IR and through the view! parser, child + 3 attribute positions) on source text parsed by syn and comparing with the model on the converted AST.",
        "manifest_note": "Trusted: syn's parser and the hand-written syn->model AST conversion in the harness (a structural map; errors show up as divergences); reading decisions in DESIGN.md §5 C18 (compound assignment is a binary operator; const blocks/items/closures opaque; types are compile-time).",
        "lean_modules": ["SycVerif.Props.C18"],
        "theorems": ["SycVerif.IsDyn.C18_conservative", "SycVerif.IsDyn.C18_static_sound"],
        "engines": [{"harness": "native", "engine": "isdyn", "proto": "isdyn"}],
        "status": "full statement proved over the model (all expressions of the grammar)",
        "rule": "source text built from 66 expression, 24 pattern and 14 statement templates: depth<=1 over all leaves and depth 2 over depth-1 fillers (complete per template when within the per-template budget 1500 quick / 40000 thorough, otherwise a seeded sample of that size), plus 20k (quick) / 300k (thorough) random expressions of depth 2..6; each parsed by syn, classified by the real Codegen at 6 sites. distinct = distinct model S-expression; non-trivial = at least one sub-term",
        "exhaustive_blocks_quick": "templates whose filler product is <= 1500 are enumerated completely (all one-hole templates over all leaves)",
        "exhaustive_blocks_thorough": "templates whose filler product is <= 40000 are enumerated completely",
        "trusted": ["syn 2 parser; the syn->S-expression converter in harness/native/src/isdyn.rs; the independent containsEval visitor (oracle) in the same file"],
        "assumptions": ["the view! macro passes interpolations to Codegen::node/attribute unchanged (sycamore-macro/src/lib.rs: parse -> Codegen::root)"],
    },
    "C01": {
        "manifest_text": 'Lean model of the whole propagation machinery (Root::propagate_node_updates, dfs, run_node_update, mark_dependents_dirty, create_dependency_link, dispose, batch) executing closure programs of a DSL; full-strength consistency stated as C01_full and PROVED FALSE of the model by kernel evaluation of the late-edge witness (known finding D1), which the check replays on the real code; dfs topological-order theorems for all arenas. Model tied to /repo by comparing, after every operation of thousands of generated programs, values/liveness/run traces/edge counts with the real sycamore-reactive; the real code is additionally judged by a from-scratch reference evaluation.',
        "manifest_note": 'Partial: consistency for programs without late edges is not yet proved in Lean (planned C01_partial); it is checked by the implementation-side from-scratch oracle on every case. Known finding D1 (late edge) is reported as KNOWN-FINDING, any other staleness is a violation.',
        "lean_modules": ['SycVerif.Props.C01'],
        "theorems": ['SycVerif.Reactive.C01_full_false', 'SycVerif.Reactive.d1_witness_inconsistent'],
        "engines": [{"harness": "native", "engine": "reactive", "proto": "reactive", "args": ['--profile', '0']}],
        "classes": ['stale-value', 'late-edge', 'dirty-at-rest'],
        "status": 'C01_full is false of the model and of the code (witness d1Witness, corpus/reactive/d1.case); C01_partial (NoLateEdge hypothesis) not proved yet',
        "partial": [{'theorem': 'C01_partial (planned)', 'missing': 'consistency after every write under the NoLateEdge trace hypothesis; today established only by the oracle on the cases run'}],
        "rule": "35 hand-written program families (chains, diamonds, selector fan-in, conditional switches = late edges, read forms, nested owners, batches, disposal from runs/cleanups/batches, context trees) + crash-point enumeration (dispose of every nameable handle and of the current scope inserted at every position of every body of 4 base programs) + seeded random programs in 3 profiles (pure graphs / read forms / everything): 1-4 signals, 1-6 computations, 3-12 top-level operations, values in -2..3. One case = one whole program; after EVERY top-level operation the observation (trace of runs with every value read, cleanups, liveness and value of every node ever created, live count, per-node |children|/|dependents|/|dependencies|/dirty) is compared with the Lean model. distinct = distinct program text; non-trivial = at least one computation re-ran",
        "trusted": ["slotmap modelled as an arena with never-reused ids; RefCell borrow discipline is not modelled (a double borrow would show up as panic class `borrow` in the correspondence)",
                    "closures are programs of the DSL in Model/Reactive.lean; harness/native/src/reactive.rs interprets the same DSL against the real API (create_signal/create_memo/create_selector[_with]/create_effect/create_child_scope/on/untrack/component_scope/batch/on_cleanup/provide_context/try_use_context/NodeHandle::{dispose,run_in})",
                    "hook cfg(sycamore_verif): verif::{node_count,snapshot,handle_of} (read-only) used for liveness and edge-list lengths in the observation"],
        "assumptions": ["effects may write only signals created after everything they can read (generator rule that keeps write cascades finite)", "memos contain no writes"],
    },
    "C03": {
        "manifest_text": "Lean theorems, for every arena and every closure body: untracked reads leave the whole reactive state unchanged; whatever runs inside untrack(..) / component bodies / on(..) callbacks / cleanup callbacks runs with the tracker switched off and the enclosing computation's tracker is restored exactly; track without a tracker is a no-op. Edge lists (|dependencies|, |dependents|) of the real code are compared with the model and with the harness' own record of tracked reads after every operation; run sets are checked against must-run/must-not-run predictions.",
        "manifest_note": 'Partial: exactness of the edge set for all programs (dependencies = tracked reads of the latest run, as a theorem over exec) is not proved yet; covered by the edges/missed-run/unjustified-run oracles on the cases run.',
        "lean_modules": ['SycVerif.Props.ReactiveBasic'],
        "theorems": ['SycVerif.Reactive.C03_readU_no_subscription', 'SycVerif.Reactive.C03_untrack_restores_tracker', 'SycVerif.Reactive.C03_component_restores_tracker', 'SycVerif.Reactive.C03_untrack_body_untracked', 'SycVerif.Reactive.C03_track_without_tracker', 'SycVerif.Reactive.C03_cleanups_untracked'],
        "engines": [{"harness": "native", "engine": "reactive", "proto": "reactive", "args": ['--profile', '1']}],
        "classes": ['edges', 'missed-run', 'unjustified-run'],
        "status": 'tracker discipline proved for all bodies; edge-set exactness over whole programs not yet proved',
        "partial": [{'theorem': 'C03 edge exactness (planned)', 'missing': "dependencies n = tracked reads of n's latest run for every reachable state"}],
        "rule": "35 hand-written program families (chains, diamonds, selector fan-in, conditional switches = late edges, read forms, nested owners, batches, disposal from runs/cleanups/batches, context trees) + crash-point enumeration (dispose of every nameable handle and of the current scope inserted at every position of every body of 4 base programs) + seeded random programs in 3 profiles (pure graphs / read forms / everything): 1-4 signals, 1-6 computations, 3-12 top-level operations, values in -2..3. One case = one whole program; after EVERY top-level operation the observation (trace of runs with every value read, cleanups, liveness and value of every node ever created, live count, per-node |children|/|dependents|/|dependencies|/dirty) is compared with the Lean model. distinct = distinct program text; non-trivial = at least one computation re-ran",
        "trusted": ["slotmap modelled as an arena with never-reused ids; RefCell borrow discipline is not modelled (a double borrow would show up as panic class `borrow` in the correspondence)",
                    "closures are programs of the DSL in Model/Reactive.lean; harness/native/src/reactive.rs interprets the same DSL against the real API (create_signal/create_memo/create_selector[_with]/create_effect/create_child_scope/on/untrack/component_scope/batch/on_cleanup/provide_context/try_use_context/NodeHandle::{dispose,run_in})",
                    "hook cfg(sycamore_verif): verif::{node_count,snapshot,handle_of} (read-only) used for liveness and edge-list lengths in the observation"],
        "assumptions": ["effects may write only signals created after everything they can read (generator rule that keeps write cascades finite)", "memos contain no writes"],
    },
    "C10": {
        "manifest_text": "Lean theorems for every arena: while a batch is open a write only appends to the queue (no body runs, no derived value, mark or dirty flag changes); set inside a batch changes only the signal's stored value and the queue; a nested batch returns without propagating (D3 repaired). The real batch/start_batch/end_batch are exercised by nested-batch families and random batches and compared with the model; the oracle flags any run before the outermost batch ends.",
        "manifest_note": "Partial: 'every affected computation runs exactly once and the state is consistent at the end of the outermost batch' inherits C01/C02 (oracles double-run, stale-value on the cases run).",
        "lean_modules": ['SycVerif.Props.ReactiveBasic'],
        "theorems": ['SycVerif.Reactive.C10_write_in_batch_only_queues', 'SycVerif.Reactive.C10_set_in_batch', 'SycVerif.Reactive.C10_nested_batch_does_not_propagate'],
        "engines": [{"harness": "native", "engine": "reactive", "proto": "reactive"}],
        "classes": ['ran-inside-batch', 'double-run', 'stale-value', 'dirty-at-rest'],
        "status": 'deferral clauses proved for all arenas; end-of-batch consistency inherits C01 (partial)',
        "partial": [{'theorem': 'C10 (ii) end-of-batch consistency', 'missing': 'multi-start version of the C01 invariant'}],
        "rule": "35 hand-written program families (chains, diamonds, selector fan-in, conditional switches = late edges, read forms, nested owners, batches, disposal from runs/cleanups/batches, context trees) + crash-point enumeration (dispose of every nameable handle and of the current scope inserted at every position of every body of 4 base programs) + seeded random programs in 3 profiles (pure graphs / read forms / everything): 1-4 signals, 1-6 computations, 3-12 top-level operations, values in -2..3. One case = one whole program; after EVERY top-level operation the observation (trace of runs with every value read, cleanups, liveness and value of every node ever created, live count, per-node |children|/|dependents|/|dependencies|/dirty) is compared with the Lean model. distinct = distinct program text; non-trivial = at least one computation re-ran",
        "trusted": ["slotmap modelled as an arena with never-reused ids; RefCell borrow discipline is not modelled (a double borrow would show up as panic class `borrow` in the correspondence)",
                    "closures are programs of the DSL in Model/Reactive.lean; harness/native/src/reactive.rs interprets the same DSL against the real API (create_signal/create_memo/create_selector[_with]/create_effect/create_child_scope/on/untrack/component_scope/batch/on_cleanup/provide_context/try_use_context/NodeHandle::{dispose,run_in})",
                    "hook cfg(sycamore_verif): verif::{node_count,snapshot,handle_of} (read-only) used for liveness and edge-list lengths in the observation"],
        "assumptions": ["effects may write only signals created after everything they can read (generator rule that keeps write cascades finite)", "memos contain no writes"],
    },
    "C11": {
        "manifest_text": 'Lean theorems for every arena (no well-formedness needed): each repaired index site is total — mark_dependents_dirty and create_dependency_link of a dead node are no-ops, disposing a dead node is a no-op, the propagation loop and dfs skip dead nodes. Crash-point enumeration on the real code: dispose(h) for every nameable handle and dispose of the current scope inserted at every position of every body that runs during a propagation, plus random disposals; any panic that the harness did not predict from liveness (use of a handle/scope the program itself destroyed) is a violation.',
        "manifest_note": 'Partial: totality of the whole interpreter on every well-formed arena (C11_total) is not proved; the model returns an explicit error at each remaining index site and the correspondence shows the real code panics exactly there.',
        "lean_modules": ['SycVerif.Props.ReactiveBasic'],
        "theorems": ['SycVerif.Reactive.C11_markDependentsDirty_dead', 'SycVerif.Reactive.C11_createDependencyLink_dead', 'SycVerif.Reactive.C11_dispose_dead', 'SycVerif.Reactive.C11_loop_skips_dead', 'SycVerif.Reactive.C11_dfs_dead'],
        "engines": [{"harness": "native", "engine": "reactive", "proto": "reactive", "args": ['--profile', '2']}],
        "classes": ['unexpected-panic', 'leak', 'freed-early', 'node-count'],
        "status": 'site-level totality proved; C11_total over all programs not proved',
        "partial": [{'theorem': 'C11_total (planned)', 'missing': 'every public operation returns ok or a documented panic on every WF arena'}],
        "rule": "35 hand-written program families (chains, diamonds, selector fan-in, conditional switches = late edges, read forms, nested owners, batches, disposal from runs/cleanups/batches, context trees) + crash-point enumeration (dispose of every nameable handle and of the current scope inserted at every position of every body of 4 base programs) + seeded random programs in 3 profiles (pure graphs / read forms / everything): 1-4 signals, 1-6 computations, 3-12 top-level operations, values in -2..3. One case = one whole program; after EVERY top-level operation the observation (trace of runs with every value read, cleanups, liveness and value of every node ever created, live count, per-node |children|/|dependents|/|dependencies|/dirty) is compared with the Lean model. distinct = distinct program text; non-trivial = at least one computation re-ran",
        "trusted": ["slotmap modelled as an arena with never-reused ids; RefCell borrow discipline is not modelled (a double borrow would show up as panic class `borrow` in the correspondence)",
                    "closures are programs of the DSL in Model/Reactive.lean; harness/native/src/reactive.rs interprets the same DSL against the real API (create_signal/create_memo/create_selector[_with]/create_effect/create_child_scope/on/untrack/component_scope/batch/on_cleanup/provide_context/try_use_context/NodeHandle::{dispose,run_in})",
                    "hook cfg(sycamore_verif): verif::{node_count,snapshot,handle_of} (read-only) used for liveness and edge-list lengths in the observation"],
        "assumptions": ["effects may write only signals created after everything they can read (generator rule that keeps write cascades finite)", "memos contain no writes"],
    },
    "C16": {
        "manifest_text": "Lean theorems for every arena with well-formed ownership links, every scope and every type: try_use_context returns exactly the value of the NearestProvider relation (closest ancestor-or-self providing the type), the relation is functional, the walk never runs out of steps or meets a stale key; shadowing holds only inside the providing scope; providing twice panics, providing once succeeds; dispose_children leaves an empty context. Real provide_context/try_use_context are compared with the model and with a reference walk over the harness' own ownership tree.",
        "manifest_note": 'Trusted: TypeId-based lookup modelled by a numeric type tag (3 distinct Rust types in the harness); downcast/clone not modelled.',
        "lean_modules": ['SycVerif.Props.C16'],
        "theorems": ['SycVerif.Reactive.ctxWalk_sound', 'SycVerif.Reactive.nearestProvider_unique', 'SycVerif.Reactive.ctxWalk_complete', 'SycVerif.Reactive.C16_useContext_nearest', 'SycVerif.Reactive.C16_shadowing', 'SycVerif.Reactive.C16_inherits', 'SycVerif.Reactive.C16_provide_twice_panics', 'SycVerif.Reactive.C16_provide_once', 'SycVerif.Reactive.C16_dispose_children_clears'],
        "engines": [{"harness": "native", "engine": "reactive", "proto": "reactive", "args": ['--profile', '2']}],
        "classes": ['context'],
        "status": 'full statement proved over the model for all well-formed arenas',
        "partial": [],
        "rule": "35 hand-written program families (chains, diamonds, selector fan-in, conditional switches = late edges, read forms, nested owners, batches, disposal from runs/cleanups/batches, context trees) + crash-point enumeration (dispose of every nameable handle and of the current scope inserted at every position of every body of 4 base programs) + seeded random programs in 3 profiles (pure graphs / read forms / everything): 1-4 signals, 1-6 computations, 3-12 top-level operations, values in -2..3. One case = one whole program; after EVERY top-level operation the observation (trace of runs with every value read, cleanups, liveness and value of every node ever created, live count, per-node |children|/|dependents|/|dependencies|/dirty) is compared with the Lean model. distinct = distinct program text; non-trivial = at least one computation re-ran",
        "trusted": ["slotmap modelled as an arena with never-reused ids; RefCell borrow discipline is not modelled (a double borrow would show up as panic class `borrow` in the correspondence)",
                    "closures are programs of the DSL in Model/Reactive.lean; harness/native/src/reactive.rs interprets the same DSL against the real API (create_signal/create_memo/create_selector[_with]/create_effect/create_child_scope/on/untrack/component_scope/batch/on_cleanup/provide_context/try_use_context/NodeHandle::{dispose,run_in})",
                    "hook cfg(sycamore_verif): verif::{node_count,snapshot,handle_of} (read-only) used for liveness and edge-list lengths in the observation"],
        "assumptions": ["effects may write only signals created after everything they can read (generator rule that keeps write cascades finite)", "memos contain no writes"],
    },
}

# ---------------------------------------------------------------------------------------------
# further reactive-engine properties (same engine, rule and trusted base as C01)
RX = "SycVerif.Reactive."


def _reactive(pid, text, note, mods, ths, classes, status, partial, args=None):
    base = CHECKS["C01"]
    eng = {"harness": "native", "engine": "reactive", "proto": "reactive"}
    if args:
        eng["args"] = args
    CHECKS[pid] = {
        "manifest_text": text, "manifest_note": note, "lean_modules": mods, "theorems": ths,
        "engines": [eng], "classes": classes, "status": status, "partial": partial,
        "rule": base["rule"], "trusted": base["trusted"], "assumptions": base["assumptions"],
    }


_reactive("C02",
          "Lean theorems about the schedule Root::dfs fixes before any user code runs, for EVERY arena, start node and fuel: the buffer never lists a node twice (at most one run per node and write), in visiting order every scheduled node precedes all its live dependents (a computation runs after everything it was subscribed to), the search changes nothing but marks, and the invariant carries over to the next start node (batches). The real code is compared with the model run by run (each run with every value it read) and judged by glitch/double-run/unjustified-run oracles against a from-scratch reference.",
          "Partial: clause (i) (no stale read) for edges that appear during the propagation is FALSE on the code (known finding D1, class late-edge, reported as KNOWN-FINDING); for edges that exist when the order is fixed it follows from C02_schedule_topological but the lift through run_node_update to whole programs is not yet a Lean theorem; clause (iii) by oracle only.",
          ["SycVerif.Props.C02"],
          [RX + n for n in ["C02_schedule_no_duplicates", "C02_schedule_topological", "C02_schedule_is_pure", "C02_schedule_invariant"]],
          ["glitch", "double-run", "unjustified-run", "late-edge"],
          "schedule theorems proved for all arenas; lift to whole programs (C02_partial) not yet proved; clause (i) false for late edges (D1)",
          [{"theorem": "C02_partial (planned)", "missing": "reads made by running bodies see locally consistent values under NoLateEdge; a run is always justified by a change in the current propagation"}],
          ["--profile", "0"])

_reactive("C04",
          "Lean theorems for every dangling-free, symmetric subscription graph: disposal (removeNode, repaired D2) erases the node from both directions of the graph — no live node keeps the destroyed id among its subscribers or dependencies — and preserves dangling-freedom and symmetry; a re-run first unsubscribes the computation everywhere (never fails) and then links it to exactly the live nodes it tracked, as a list. On the real code, after every operation: live node count = created handles still alive, dead exactly when it or an owner was disposed/re-ran, each cleanup exactly once, subscriber-list lengths = tracked reads by live computations (hook), compared with the model.",
          "Partial until the ownership-subtree theorem lands (Props/C04.lean, in progress): 'exactly the subtree dies, every cleanup once' is checked by the oracle and the correspondence only.",
          ["SycVerif.Props.C04Edges"],
          [RX + n for n in ["C04_dispose_unsubscribes", "C04_rerun_unsubscribes", "C04_link_exact"]],
          ["node-count", "leak", "freed-early", "cleanup-twice", "cleanup-missing", "stale-subscribers"],
          "subscription-graph half proved for all arenas; ownership-subtree half in progress",
          [{"theorem": "disposeNode_spec (in progress)", "missing": "exactly the ownership subtree is removed; cleanups run exactly once"}],
          ["--profile", "2"])

# C10: full clause (i) delivered by Lemmas/Batch.lean + Props/C10.lean
CHECKS["C10"]["lean_modules"] = ["SycVerif.Props.ReactiveBasic", "SycVerif.Props.C10"]
CHECKS["C10"]["theorems"] += [RX + n for n in ["C10_batch_body_quiet", "C10_batch_inner_quiet", "C10_batch_stmt_quiet",
                                               "C10_derived_values_kept", "C10_outermost_batch", "C10_propagate_nothing",
                                               "C10_empty_batch", "c10_check", "C10_outermost_batch_nonvacuous"]]
CHECKS["C10"]["manifest_text"] = ("Lean theorems for EVERY arena, fuel and nesting depth: while a batch is open, executing any batch body made of writes, silent writes, reads and nested batches (WriteOnly) runs no memo, effect or cleanup (trace unchanged), leaves every derived node and every edge/dirty/mark untouched (Quiet), keeps the batch open and appends exactly the written ids, in program order, to the queue; the outermost batch then performs ONE propagation from all written signals after the closure returned; an empty batch is a no-op (C10_batch_body_quiet, C10_outermost_batch, C10_empty_batch, D3 repaired). The real batch/start_batch/end_batch are exercised by nested-batch families and random batches and compared with the model; the oracle flags any run before the outermost batch ends.")
CHECKS["C10"]["status"] = "clause (i) (nothing reacts inside a batch, any depth) and (iii) (empty batch is a no-op) proved for all arenas; clause (ii) consistency at the end inherits C01 (partial, known finding D1)"

# C04: ownership-subtree theorems delivered by Lemmas/Dispose.lean + Props/C04.lean
CHECKS["C04"]["lean_modules"] = ["SycVerif.Props.C04Edges", "SycVerif.Props.C04"]
CHECKS["C04"]["theorems"] += [RX + n for n in ["runCleanups_inert", "disposeNode_spec", "disposeNode_total", "disposeNode_total_explicit",
                                               "disposeNode_total_noCleanups", "disposeChildren_spec", "disposeNode_dead_after",
                                               "dispose_dead", "dispose_idempotent", "dispose_twice_stmt", "exArena_ok", "exDispose"]]
CHECKS["C04"]["manifest_text"] = ("Lean theorems for every arena with well-formed ownership (OwnershipOk) and a dangling-free symmetric subscription graph, any fuel: NodeHandle::dispose removes EXACTLY the ownership subtree (dead_iff), leaves every survivor unchanged except that subtree ids are erased from its subscriber/dependency lists (no signal retains a destroyed subscriber; repair D2), preserves all three invariants, runs the cleanups registered in the subtree exactly once each in pre-order with the tracker off (for cleanups made of reads), changes neither tracker/current/batch state, lowers the live count by the number of live owned nodes, is idempotent, and always terminates successfully (explicit fuel bound); dispose_children likewise. Re-run: unsubscribe everywhere, then link to exactly the tracked live nodes. On the real code, after every operation: live count = handles alive, dead exactly when it or an owner was disposed/re-ran, each cleanup exactly once, subscriber-list lengths = tracked reads by live computations (hook), all compared with the model.")
CHECKS["C04"]["manifest_note"] = "Cleanup closures are arbitrary user code: the subtree theorem is proved for cleanups consisting of reads/track (InertBody); cleanups with side effects are covered by the correspondence and the oracle only. Preservation of OwnershipOk/NoDangling/EdgesSym by the whole interpreter (so that the theorems apply to every reachable state) is not yet a Lean theorem."
CHECKS["C04"]["status"] = "structural theorems proved for all well-formed arenas (inert cleanups); lift to every reachable state of every program: not proved, covered by correspondence"
CHECKS["C04"]["partial"] = [{"theorem": "exec_preserves_WF (planned)", "missing": "OwnershipOk, NoDangling and EdgesSym hold in every state reachable by DSL programs"}]

LM = "SycVerif.ListMap."
CHECKS["C07"] = {
    "manifest_text": "Lean theorems over a phase-by-phase model of the update closures of map_keyed and map_indexed (clear and create fast paths, prefix/suffix skip by value, new_indices map with its next chain, move-or-dispose, fill, truncate; map_fn abstracted to 'return a fresh call id'): for ALL lists — map_indexed: one output per input, a position is recomputed iff its value changed or appeared, fresh ids ascending, disposed scopes = exactly the replaced and truncated positions, each once (mapIndexed_spec + corollaries); map_keyed with unique keys: the result of the call made when a key entered is kept wherever the item moves and whatever its payload becomes, exactly one call per entering key in ascending position, disposed scopes = exactly the keys that left, each once, never a retained one, no panic (mapKeyed_spec), lifted to every history of updates (mapKeyed_history: the stored id is the id of the call of the update in which the key most recently entered). Model tied to /repo by running the real map_keyed/map_indexed with an instrumented map_fn (call ids, on_cleanup log) on exhaustive and random chains and comparing outputs and event order.",
    "manifest_note": "Trusted: HashMap modelled as an association list; create_child_scope/dispose abstracted to create/dispose events named by call id. With DUPLICATE keys (outside the property) a debug_assert of map_keyed can fail in debug builds; it is modelled and reported in DESIGN.md, not a C07 violation.",
    "lean_modules": ["SycVerif.Props.C07"],
    "theorems": [LM + n for n in ["mapIndexed_spec", "mapIndexed_create_ids_ascending", "mapIndexed_reused_no_event", "mapIndexed_mem_disposes",
                                  "mapIndexed_disposes_nodup", "mapIndexed_history", "mapKeyed_spec", "mapKeyed_create_ids_ascending",
                                  "mapKeyed_mem_disposes", "mapKeyed_disposes_nodup", "mapKeyed_kept_no_event", "mapKeyed_history"]],
    "engines": [{"harness": "native", "engine": "listmap"}],
    "status": "full statement proved over the model (all lists, unique keys for map_keyed, all histories)",
    "partial": [],
    "rule": "exhaustive: all ordered pairs of duplicate-free key lists over 4 (quick) / 5 (thorough) keys as old->new chains for keyed and indexed, plus a payload-change variant; all chains of 3 updates over 3 (quick) / 4 (thorough) keys; 20k (quick) / 200k (thorough) random chains of 4-10 updates with empty lists, payload changes and (every 5th, outside the property's premise) duplicate keys. distinct = distinct request line; non-trivial = two consecutive non-empty different lists",
    "exhaustive_blocks_quick": "all pairs of duplicate-free lists over 4 keys (65x65) x {keyed, indexed, keyed+payload change}; all 3-chains over 3 keys",
    "exhaustive_blocks_thorough": "all pairs over 5 keys (326x326); all 3-chains over 4 keys",
    "trusted": ["std HashMap as association list", "scopes/cleanups abstracted to create/dispose events; the reactive wrapping create_memo(on(list, || scope.run_in(update))) is exercised by the harness but not part of this model (see C01/C04)"],
    "assumptions": ["unique keys in the old and the new list (the property's premise) for the map_keyed claims"],
}

# C01/C02: static-graph consistency theorem delivered by Lemmas/Propagate.lean + Props/C01Static.lean
_static = [RX + n for n in ["C01_static_set", "C01_static_set_exists", "C01_static_execSet", "C01_static_runClosure",
                            "C01_static_runNodeUpdate", "C01_static_schedule", "dfs_total", "C01_static_loop", "staticDemo_arena"]]
CHECKS["C01"]["lean_modules"] = ["SycVerif.Props.C01", "SycVerif.Props.C01Static"]
CHECKS["C01"]["theorems"] += _static
CHECKS["C01"]["manifest_text"] = ("Lean model of the whole propagation machinery (propagate_node_updates, dfs, run_node_update, mark_dependents_dirty, create_dependency_link, dispose, batch) executing closure programs of a DSL. POSITIVE: for every arena of signals and branch-free computations (static dependency graphs of any shape and size, memos, selectors with coarse equality, effects) that is consistent at rest, every write propagates successfully (explicit fuel bound) to a state that is again consistent at rest — every computation holds what its function yields from the current values, nothing dirty, all marks reset, signals untouched, each computation ran at most once (C01_static_set, with the loop invariant C01_static_loop and the schedule theorem C01_static_schedule: the buffer is exactly the set reachable through dependents, duplicate-free, topologically ordered). NEGATIVE: the full-strength statement C01_full (graphs whose edges change during the propagation) is PROVED FALSE of the model by kernel evaluation of the late-edge witness (known finding D1), which the check replays on the real code. Model tied to /repo by comparing, after every operation of tens of thousands of generated programs, values/liveness/run traces/edge counts with the real sycamore-reactive; the real code is additionally judged by a from-scratch reference evaluation.")
CHECKS["C01"]["manifest_note"] = "Partial: proved for static graphs (branch-free bodies); for bodies with conditional reads the statement is false in general (D1) and the NoLateEdge generalisation is not yet proved; bodies that create/dispose nodes or write signals are covered by the correspondence and the oracle only. Known finding D1 is reported as KNOWN-FINDING, any other staleness is a violation."
CHECKS["C01"]["status"] = "C01_full false (D1 witness); C01 proved for all static dependency graphs (C01_static_set); dynamic graphs under NoLateEdge: not proved"
CHECKS["C01"]["partial"] = [{"theorem": "C01_partial (NoLateEdge)", "missing": "consistency for computations with conditional reads whose newly tracked dependencies are not pending; today only by the oracle"}]
CHECKS["C02"]["lean_modules"] = ["SycVerif.Props.C02", "SycVerif.Props.C01Static"]
CHECKS["C02"]["theorems"] += _static
CHECKS["C02"]["status"] = "schedule theorems for all arenas; for static dependency graphs the full clause set follows from C01_static_set/C01_static_loop (each computation at most once, every run reads consistent values because the loop invariant keeps all non-pending computations consistent, a run happens only for dirty = notified nodes); dynamic graphs: clause (i) false for late edges (D1)"

HT = "SycVerif.Html."
SS = "SycVerif.Ssr."
_ssr_rule = ("exhaustive: every string of length <= 2 (quick) / 3 (thorough) over the alphabet < > & \" ' - ! a ; as static text, dynamic text and attribute value; "
             "seeded random SsrNode trees built directly (depth <= 3, 21 HTML/SVG/custom tags incl. void elements, 10 attribute and 5 boolean attribute names, hydration keys, dynamic views, markers) and views built through the builder API (tags::*, custom_element, attr with Some/None, bool_attr, text, View::from_dynamic text and views, fragments); strings from a grammar biased to markup metacharacters, comment/CDATA look-alikes, entities, astral, combining, U+0000, U+FFFF; a malformed stream (duplicate attribute names, void elements with children, inner_html) outside the property's premise; every 7th case re-renders an earlier view (determinism across the history); all renders happen on ONE thread, node_count sampled at the start of each render closure. distinct = distinct request line; non-trivial = contains a metacharacter or a dynamic part")
_ssr_trusted = ["html-escape 0.2.15 modelled by escapeText/escapeAttr (byte map read from its source; exercised through the real crate)",
                "the reference HTML reader Spec/Html.lean (tokenizer + stack) stands for 'an HTML parser'; raw-text/RCDATA elements, implied end tags, ASCII case folding and input preprocessing are out of scope",
                "the harness' own Rust tokenizer/tree builder (oracle), written independently of the Lean reader"]
CHECKS["C08"] = {
    "manifest_text": "Lean theorem C08_roundtrip over a model of SsrNode + render_recursive + html-escape: EVERY well-formed view (any tree, any Unicode text and attribute values, dynamic text, dynamic views, markers, boolean attributes, hydration keys, void elements) renders without panicking to a string that an independent reference HTML reader (tokenizer + stack tree builder) parses back to exactly the tree that was built, with adjacent text merged and values entity-decoded byte for byte; corollaries C08_injection_safe / C08_values_cannot_inject: whatever the text and attribute values are, the elements (tag + attribute names, in order) and comments of the parsed output are those of the view. Model tied to /repo by rendering hand-built SsrNode trees and builder-API views with the real render_to_string and comparing the bytes with the model's; the real output is also parsed by an independent Rust tokenizer and compared with the view.",
    "manifest_note": "Premise (stated in the theorem): tag/attribute names match [A-Za-z][A-Za-z0-9:_-]*, no dangerously_set_inner_html, void elements have no children. Out of scope: browser tree-construction quirks (raw-text elements such as script/style/textarea, implied end tags, case folding).",
    "lean_modules": ["SycVerif.Props.C08"],
    "theorems": [HT + n for n in ["C08_roundtrip", "C08_text_roundtrip", "C08_injection_safe", "C08_values_cannot_inject"]],
    "engines": [{"harness": "native", "engine": "ssr"}],
    "classes": ["ssr-panic", "ssr-unparsable", "ssr-unfaithful"],
    "status": "full statement proved over the model (all well-formed views, all strings)",
    "partial": [], "rule": _ssr_rule,
    "exhaustive_blocks_quick": "all strings of length <= 2 over 9 metacharacters in 4 positions", "exhaustive_blocks_thorough": "all strings of length <= 3",
    "trusted": _ssr_trusted,
    "assumptions": ["well-formed names, no inner_html, empty void elements (the theorem's WF premise; the property treats names as developer-supplied literals)"],
}
CHECKS["C12"] = {
    "manifest_text": "Lean theorems over the model of building a view through the builder API with the HydrationRegistry counter: for EVERY view description, suspense scope and registry state the stamped keys are exactly (s,k),(s,k+1),… in document order — dense and duplicate-free — and the counter advances by the number of elements (C12_keys, C12_keys_nodup); the rendered string is a function of the view description alone (C12_deterministic); render_to_string fails iff a void element is given content (C12_render_total). On the real code: thousands of renders of different views on ONE thread with re-renders of earlier views interleaved — outputs must be byte-identical to the model (which has no history) and to the first render, the data-hk keys must be the dense pre-order numbering, and verif::node_count() at the start of every render closure must be constant (a finished render released everything).",
    "manifest_note": "Partial: blocking (render_to_string_await_suspense) and streaming renders, suspense keys and use_stable_counter are not in the Lean model yet; Root::reinit (what resets keys/counters between renders) is exercised through the real code only. Sync mode is fully covered.",
    "lean_modules": ["SycVerif.Props.C12Keys"],
    "theorems": [SS + n for n in ["C12_keys", "C12_deterministic", "C12_keys_nodup", "C12_keys_nodup_from", "C12_render_total", "C12_render_never_fails"]],
    "engines": [{"harness": "native", "engine": "ssr"}],
    "classes": ["ssr-node-count", "ssr-nondeterministic", "ssr-unfaithful"],
    "status": "key discipline and determinism proved for sync rendering of all views; async modes and counters: correspondence/oracle only (planned)",
    "partial": [{"theorem": "C12 async modes", "missing": "blocking/streaming render order, suspense keys, stable counters over the async machine"}],
    "rule": _ssr_rule, "trusted": _ssr_trusted,
    "assumptions": ["sync SSR mode"],
}

# C01/C02: dynamic graphs under NoLateEdge (Lemmas/PropagateDyn.lean + Props/C01Dynamic.lean)
_dyn = [RX + n for n in ["C01_dynamic_set", "C01_dynamic_set_run", "noLateEdgeStatic_run", "C01_dynamic_set_exists", "C01_dynamic_execSet",
                         "C01_dynamic_execSet_run", "C01_dynamic_runClosure", "C01_dynamic_runNodeUpdate", "C01_dynamic_loop_run",
                         "C01_dynamic_static", "d1_violates_noLateEdge", "d1_violates_noLateEdgeRun", "dynDemo_instance", "dynDemo2_instance",
                         "dynDemo3_instance"]]
for _p in ("C01", "C02"):
    CHECKS[_p]["lean_modules"].append("SycVerif.Props.C01Dynamic")
    CHECKS[_p]["theorems"] += _dyn
CHECKS["C01"]["manifest_text"] = ("Lean model of the whole propagation machinery (propagate_node_updates, dfs, run_node_update, mark_dependents_dirty, create_dependency_link, dispose, batch) executing closure programs of a DSL. POSITIVE (C01_dynamic_set / C01_dynamic_set_run, with C01_static_set as the branch-free instance): for every arena of signals and pure computations — memos, selectors with coarse equality, effects, with CONDITIONAL reads, so dependency edges change while the write is propagated — that is consistent at rest, every write for which no computation starts reading a still-pending computation (NoLateEdge, stated both statically and on the actual trace) propagates successfully (explicit fuel bound) to a state that is again consistent at rest: every computation holds what its function yields from the current values, its dependency list is the tracked reads of its latest run, nothing dirty, all marks reset, signals untouched, each computation ran at most once and only if reachable from the written signal. NEGATIVE: without that hypothesis the statement is PROVED FALSE (C01_full_false, kernel-evaluated late-edge witness = known finding D1, replayed on the real code), and the witness is proved to violate exactly the hypothesis (d1_violates_noLateEdge). Model tied to /repo by comparing, after every operation of tens of thousands of generated programs, values/liveness/run traces/edge counts with the real sycamore-reactive; the real code is additionally judged by a from-scratch reference evaluation.")
CHECKS["C01"]["manifest_note"] = "Partial only in scope: the theorems cover pure computations (tracked reads and conditional reads); bodies that create/dispose nodes, read untracked or write signals are covered by the correspondence and the oracle only. Known finding D1 (late edge) is reported as KNOWN-FINDING, any other staleness is a violation."
CHECKS["C01"]["status"] = "C01_full false (D1 witness); C01 proved for all pure programs under NoLateEdge (C01_dynamic_set_run), which the D1 witness provably violates"
CHECKS["C01"]["partial"] = [{"theorem": "C01 for impure bodies", "missing": "bodies that create or dispose nodes, untracked reads, effects that write: correspondence + oracle only"}]
CHECKS["C02"]["status"] = "schedule theorems for all arenas; for all pure programs under NoLateEdge: each computation runs at most once, only if reachable, reads only non-pending (hence consistent) computations, ends consistent (C01_dynamic_set_run/LoopInvD); clause (i) is false for late edges (D1)"
CHECKS["C02"]["partial"] = [{"theorem": "C02 clause (iii) as a stand-alone statement", "missing": "'re-runs only if something it tracked was written/re-ran/changed' is implied by the dirty-flag invariant (LoopInvD.dirty) but not restated over run logs"}]

# the lift: every reachable state is well formed; only documented panics (Lemmas/Preserve.lean + Props/ReactiveWF.lean)
_wf = [RX + n for n in ["inv_init", "reachable_inv", "reachable_noDangling", "reachable_edgesSym", "reachable_treeOk", "reachable_ownershipOk",
                        "execStmt_inv", "runNodeUpdate_inv", "disposeNode_inv", "propagateUpdates_inv", "presAll"]]
_safe = [RX + n for n in ["safeAll", "reachable_no_unwrapNone", "reachable_errors", "reachable_xinv", "reachable_valueless",
                          "runNodeUpdate_no_unwrapNone", "propagateLoop_no_unwrapNone", "execStmt_no_unwrapNone", "disposeNode_no_unwrapNone"]]
for _p in ("C03", "C04", "C11"):
    CHECKS[_p]["lean_modules"].append("SycVerif.Props.ReactiveWF")
CHECKS["C04"]["theorems"] += _wf
CHECKS["C04"]["status"] = "full over the model: the structural disposal theorems hold on every dangling-free, symmetric, well-owned arena, and EVERY state reachable by EVERY DSL program (arbitrary closures, self-disposal, nested batches, cleanups that do anything) is such an arena (reachable_inv); cleanups with side effects inside the disposed subtree: exactly-once by correspondence/oracle"
CHECKS["C04"]["manifest_note"] = "The subtree theorem's cleanup clause is proved for cleanups consisting of reads (InertBody); for arbitrary cleanups exactly-once is checked by the oracle and the correspondence. All other clauses hold for every reachable state (reachable_inv)."
CHECKS["C04"]["partial"] = [{"theorem": "disposeNode_spec for side-effecting cleanups", "missing": "exactly-once execution when cleanups themselves create/dispose/write"}]
CHECKS["C03"]["theorems"] += _wf[:6] + [RX + "C04_link_exact", RX + "C04_rerun_unsubscribes"]
CHECKS["C03"]["lean_modules"].append("SycVerif.Props.C04Edges")
CHECKS["C03"]["status"] = "tracker discipline proved for all bodies; in every reachable state the subscription graph is dangling-free and symmetric (reachable_inv) and each (re-)run links the computation to exactly the live nodes it tracked, as a list (C04_link_exact); for pure programs dependencies = tracked reads of the latest run at rest (DynArena.deps in C01_dynamic_set)"
CHECKS["C03"]["partial"] = [{"theorem": "edge exactness at rest for impure bodies", "missing": "dependencies n = tracked reads of n's latest run as a whole-program theorem for bodies that create/dispose/write (holds per run by C04_link_exact)"}]
CHECKS["C11"]["theorems"] += _safe + [RX + "reachable_inv", RX + "disposeNode_inv", RX + "execStmt_inv"]
CHECKS["C11"]["manifest_text"] = ("Lean theorems over the whole interpreter, for EVERY DSL program (arbitrary closures that create, write, batch, and dispose ANY handle or the current scope at ANY point — inside running memos/effects, cleanups, batches): every reachable state keeps the arena invariants (ownership tree, dangling-free symmetric subscription graph: reachable_inv, presAll), a run can fail only with a documented panic class — use of a signal/scope the program itself destroyed, duplicate context, (cyclic) — never with an internal unwrap of a missing callback/value (reachable_errors, reachable_no_unwrapNone, safeAll); plus site-level totality of the repaired index sites (D4). Crash-point enumeration on the real code: dispose(h) for every nameable handle and dispose of the current scope inserted at every position of every body that runs during a propagation, plus random disposals; any panic the harness did not predict from liveness is a violation; the model reproduces every observed panic class.")
CHECKS["C11"]["manifest_note"] = "The model returns an explicit error at each remaining index site of the real code (stale key = slotKey, disposed signal = disposed); reachable_errors shows nothing else can happen. RefCell double borrows are not modelled (they would show up as panic class `borrow` in the correspondence)."
CHECKS["C11"]["status"] = "C11_total proved over the model: invariants preserved by every operation of every program, only documented panics"
CHECKS["C11"]["partial"] = []

RC = "SycVerif.Reconcile."
CHECKS["C06"] = {
    "manifest_text": "Lean theorem C06_reconcile over a model of reconcile_fragments (udomdiff port: append, remove, common prefix/suffix, swap, map fallback with insert-run / replaceChild / skip / remove) with insertBefore, removeChild, replaceChild and nextSibling specified as in the DOM standard: for EVERY pair of node sequences a (non-empty) and b without duplicates and arbitrary siblings pre/post around the region, the routine never fails and turns the children pre ++ a ++ post into exactly pre ++ b ++ post — the region is b in order, retained nodes are the very same nodes, removed ones are detached, siblings untouched (C06_reconcile, C06_retained_same_nodes, C06_never_fails, C06_idempotent); C06_region: the way Keyed/Indexed call it (nodes between the markers + end marker). Composed in the driver with the proved list-mapping model (C07) to model Keyed/Indexed: retained keys keep their nodes. Tied to /repo by running the REAL reconcile_fragments (through an add-only wrapper) and the real Keyed/Indexed components on an in-process DOM (shim crates replacing web-sys/js-sys/wasm-bindgen) and comparing children order, identity and content after every update with the model.",
    "manifest_note": "Trusted: the in-process DOM written for this task (shim/web-sys; method semantics from the WHATWG DOM text, 15 unit tests) stands for the browser; cfg(sycamore_verif_dom) switches sycamore-web to the DOM back end on the native target. The composition Keyed = map_keyed + reconcile is in the driver (executable), not a separate Lean theorem.",
    "lean_modules": ["SycVerif.Props.C06", "SycVerif.Props.C07"],
    "theorems": [RC + n for n in ["C06_reconcile", "C06_region", "C06_retained_same_nodes", "C06_idempotent", "C06_never_fails", "C06_clear"]]
                + [LM + "mapKeyed_spec", LM + "mapIndexed_spec"],
    "engines": [{"harness": "dom", "engine": "dom"}],
    "classes": ["dom-reconcile", "dom-reconcile-panic", "dom-list", "dom-identity", "dom-list-panic", "dom-list-stale-item"],
    "status": "full statement proved over the model for the diffing routine (all pairs, all siblings); Keyed/Indexed = proved list mapping + proved reconcile, composed executably",
    "partial": [{"theorem": "keyed_region (composition as a Lean theorem)", "missing": "one statement chaining mapKeyed_spec and C06_region over histories; today the chain is executed by the driver and compared with the real components"}],
    "rule": "exhaustive: every ordered pair (a, b) of duplicate-free sequences over 5 (quick) / 6 (thorough) node names up to length 4 / 5, a non-empty, with 0-2 siblings on each side (4 sibling layouts), every third pair additionally with a shared end marker (the Keyed/Indexed calling convention); nodes are a mix of elements, text nodes and comments; 4000 (quick) / 60000 (thorough) random chains of 3-7 list updates through the real Keyed and Indexed components (every 9th with duplicate keys), every 4th chain replayed with item views that are dynamic at their top level and toggled between updates. distinct = distinct request line; non-trivial = a and b non-empty and different / more than one update",
    "exhaustive_blocks_quick": "all (a,b) over 5 names, |a|,|b| <= 4 (56k calls of the real routine)", "exhaustive_blocks_thorough": "all (a,b) over 6 names, |a|,|b| <= 5",
    "trusted": ["in-process DOM (shim/web-sys) instead of a browser; see shim/README.md", "hooks: cfg(sycamore_verif_dom) back-end selection, add-only pub fn __verif_reconcile_fragments"],
    "assumptions": ["a and b are duplicate-free, new nodes of b are not already siblings outside the region (true for Keyed/Indexed)"],
}
AS = "SycVerif.Async."
_async_rule = ("suspense: 9 boundary/scope/task shapes x EVERY completion order of their await points (exhaustive up to 5 (quick) / 6 (thorough) events); 4 shapes x a dispose of every scope inserted between every two steps of a completion schedule; 2500 (quick) / 60000 (thorough) random trees (<= 7 items, depth <= 3, tasks with 1-3 await points) with shuffled completions and 0-2 disposals. resources: EVERY event sequence over {write, finish 1..4} up to length 5 (quick) / 6 (thorough), every 9th with the owning scope disposed at a random point. Real tokio current-thread LocalSet; every await point is a oneshot completed by the harness; after each event the executor is drained and is_loading of every live boundary, use_is_loading_global, the bodies' resume log and any panic inside the executor are observed. distinct = distinct request line; non-trivial = at least two events")
_async_trusted = ["tokio LocalSet, futures::Abortable and wakers are NOT modelled: the model assumes an aborted task is never polled again and is dropped at the next executor turn, and that completing an await point resumes a live task exactly once; the correspondence exercises exactly these assumptions on the real executor",
                  "the reactive layer under the suspense counters (selectors, effects) is covered by C01-C04"]
CHECKS["C13"] = {
    "manifest_text": "Lean theorems over an event-level machine of suspense boundaries, scopes and tasks, for EVERY tree of boundaries/scopes/tasks and EVERY event order: in every reachable state each live counter equals the number of unfinished tasks registered at its boundary (C13_remaining_eq_unfinished), a boundary reports loading exactly while an unfinished task is registered at it or at an enclosing boundary (C13_isLoading_iff), completions commute — any two orders of the same completions end in the same counters and loading flags (C13_order_independent) —, once every await point of every task has completed nothing is loading (C13_all_done), and use_is_loading_global is true iff some live counter is positive (C13_global, D9 repaired). Tied to /repo by running real create_suspense_scope / create_suspense_task / SuspenseScope::is_loading on a real tokio executor for every completion order of the enumerated shapes and comparing with the machine after every event.",
    "manifest_note": "Partial: the blocking and streaming SSR clauses (render_to_string_await_suspense returns only when all tasks finished; streaming emits each boundary once, parent first, and equals the blocking result) are not modelled yet; the reactive-level clause is fully covered. Executor behaviour is assumed (see trusted base).",
    "lean_modules": ["SycVerif.Props.C13"],
    "theorems": [AS + n for n in ["C13_reach_invariants", "C13_remaining_eq_unfinished", "C13_remaining_eq_unfinished_run", "C13_isLoading_iff", "C13_global",
                                  "C13_complete_comm", "C13_order_independent", "C13_order_independent_obs", "C13_all_done", "C13_all_done_build", "C13_task_counter_alive"]],
    "engines": [{"harness": "native", "engine": "async"}],
    "classes": ["suspense-loading", "async-panic"],
    "status": "reactive-level statement proved for all trees and all schedules; SSR blocking/streaming clauses not modelled",
    "partial": [{"theorem": "blocking_returns_iff_all_done / stream_once / stream_parent_first / stream_equals_blocking", "missing": "model of render_to_string_await_suspense and render_to_string_stream over the machine"}],
    "rule": _async_rule, "trusted": _async_trusted, "assumptions": ["every task has at least one await point (a task without await points completes at spawn)"],
}
CHECKS["C14"] = {
    "manifest_text": "Lean theorems over the same machine, for EVERY tree and EVERY placement of scope disposals between executor steps: after dispose(s) no body of a task spawned in the subtree of s ever resumes again, in any continuation (C14_no_poll_after_dispose: holds from every state), the disposed tasks are cancelled and dropped at the next executor turn and nothing else changes (C14_dispose_cancels/others), every surviving counter equals the number of its still-pending tasks — the guards held by cancelled tasks are released — and a boundary with no pending task under it or its ancestors is not loading (C14_survivor_released, C14_survivor_not_loading), a disposed counter is left alone (repair D5), disposal is idempotent (C14_dispose_idempotent/twice). Totality: the machine has no error outcome; on the real code every event runs under a panic hook that also sees panics swallowed by the executor. Crash-point enumeration on the real tokio executor: a dispose of every scope between every two steps.",
    "manifest_note": "Partial by nature: that tokio drops an aborted task at its next poll and that Abortable checks the flag before polling the inner future are assumptions of the model, validated only by the correspondence (poll log of instrumented futures).",
    "lean_modules": ["SycVerif.Props.C14"],
    "theorems": [AS + n for n in ["C14_subtree_iff", "C14_dispose_scopes", "C14_complete_polls", "C14_complete_not_pending", "C14_dispose_polls", "C14_dispose_cancels",
                                  "C14_dispose_others", "C14_no_poll_after_dispose", "C14_survivor_released", "C14_survivor_released_delta",
                                  "C14_survivor_not_loading", "C14_dispose_idempotent", "C14_disposed_dead", "C14_dispose_twice"]],
    "engines": [{"harness": "native", "engine": "async"}],
    "classes": ["poll-after-dispose", "async-panic", "suspense-loading"],
    "status": "machine-level statement proved in full; executor assumptions validated by correspondence only",
    "partial": [{"theorem": "executor semantics", "missing": "tokio/Abortable behaviour is assumed, not modelled"}],
    "rule": _async_rule, "trusted": _async_trusted, "assumptions": [],
}
CHECKS["C15"] = {
    "manifest_text": "Lean theorems over the resource machine (create_isomorphic_resource(on(dep, fetch))): for EVERY sequence of dependency writes and fetch completions (including completions that never happen and repeated ones): the value is exactly the result of the most recent fetch that completed while it was the latest, with the dependency value it was started for, characterised declaratively from the event history (C15_value_is_latest_completed', lastDelivered_iff); an older in-flight fetch can never overwrite it and a completion delivers at most once (C15_older_fetch_cannot_overwrite, C15_finish_idempotent); a write leaves the previous value readable and sets loading (C15_previous_value_readable, C15_write_loading); is_loading is true exactly while the latest fetch is outstanding (C15_loading_iff_latest_outstanding). Tied to /repo by driving the real resource on a real tokio executor through EVERY event sequence up to length 5/6 with oneshot-gated fetch futures and comparing value and is_loading after every event.",
    "manifest_note": "The abort of the previous fetch (effect re-run -> cleanup -> AbortHandle) is abstracted to 'an older fetch can deliver nothing'; that the real code behaves so is what the exhaustive correspondence shows.",
    "lean_modules": ["SycVerif.Props.C15"],
    "theorems": [AS + n for n in ["C15_invariants", "C15_value_is_latest_completed", "C15_value_iff", "C15_depOf", "lastDelivered_iff", "C15_value_is_latest_completed'",
                                  "C15_older_fetch_cannot_overwrite", "C15_older_fetch_cannot_overwrite'", "C15_finish_idempotent", "C15_previous_value_readable",
                                  "C15_write_loading", "C15_loading_iff_latest_outstanding", "C15_loading_iff_value_stale"]],
    "engines": [{"harness": "native", "engine": "async"}],
    "classes": ["resource-latest", "async-panic"],
    "status": "machine-level statement proved in full",
    "partial": [], "rule": _async_rule, "trusted": _async_trusted, "assumptions": [],
    "exhaustive_blocks_quick": "all event sequences over {write, finish 1..4} of length <= 5 (3906)", "exhaustive_blocks_thorough": "length <= 6 (19531)",
}

DV = "SycVerif.DomView."
CHECKS["C09"] = {
    "manifest_text": "Lean theorems C12_keys (the keys the server stamps are the dense pre-order numbering, which is also the order in which the hydrating build requests them — both sides run the same builder code with the same counter), C08_roundtrip (the server output parses back to exactly the tree that was built, so the elements to adopt exist under their keys) and the client-update theorems of C05 (after hydration the instance is a mounted view: later writes keep the document equal to a fresh client render). Tied to /repo end to end: for thousands of generated views the REAL server renderer (harness/native) produces the HTML, the in-process DOM parses it, the REAL hydrate_in_scope (harness/dom, feature hydrate) hydrates it with the same view and state; checked: no panic, every server-rendered element adopted exactly once (same node identities and order, data-hydrated stamp), no element created or moved (mutation log), visible tree unchanged, then after every signal write the visible tree equals a client render of the current state and equals the Lean DomView model (element identities included).",
    "manifest_note": "Partial: hydration itself (HydrateNode::append_child adoption of markers and dynamic text, HYDRATE_NODES lookup) is not modelled step by step in Lean; the end-to-end claim rests on the correspondence plus the three theorem groups. Known finding D12: hydrating the Show component (hidden element children, bare text children, dynamic text children) — reported as KNOWN-FINDING; NoHydrate/NoSsr/lists are not generated yet.",
    "lean_modules": ["SycVerif.Props.C12Keys", "SycVerif.Props.C08"],
    "theorems": [SS + "C12_keys", SS + "C12_keys_nodup", HT + "C08_roundtrip"],
    "engines": [{"harness": "dom", "engine": "hydrate", "generator": {"harness": "native", "engine": "hydrategen"}}],
    "classes": ["hydrate-panic", "hydrate-adopt", "hydrate-visible", "hydrate-stale", "hydrate-show"],
    "status": "keys_agree and the round trip proved; adoption procedure covered by end-to-end correspondence; Show hydration is a known finding",
    "partial": [{"theorem": "marker_adoption / C09_partial", "missing": "Lean model of HydrateNode::append_child (k-th marker finds the k-th <!--/-->, dynamic text splice) and of hydrate_in_scope"}],
    "rule": "views generated by the same generator as C05 (elements with static/dynamic/boolean attributes, text, dynamic text, dynamic views with 0-3 alternatives incl. empty and multi-node ones, fragments; depth <= 3, <= 10 nodes; Show only in 8 hand-written families) with 1-3 signals, random initial state and 0-5 writes after hydration; 3000 (quick) / 100000 (thorough) views; SSR strings come from the real render_to_string. distinct = distinct request line; every case is non-trivial (hydration is always exercised)",
    "trusted": ["in-process DOM incl. its HTML parser for set_inner_html (shim/web-sys)", "two separate builds of sycamore-web (SSR back end in harness/native, hydrate back end in harness/dom) fed the same view description"],
    "assumptions": ["sync SSR mode", "same view and same initial state on both sides"],
}

CHECKS["C05"] = {
    "manifest_text": "Lean theorems over a model of client-side rendering (mount with node identities; a signal write re-creates only the dynamic views that read the written signal; dynamic text/attributes mirror the store; Show parks its children in a fragment and keeps them alive): for EVERY view description, store, counter and write history the document equals, up to node identities, a fresh render of the current state (C05_update_eq_fresh, via the realisation relation Realizes and C05_update_realizes), every node outside the regions whose signal was written keeps its identity and place (C05_identity_kept, C05_dom_outside_regions_same: equality WITH identities), new nodes are new and no identity is ever duplicated along any history (C05_new_nodes_are_new, C05_ids_distinct_always), a write that no dynamic view reads changes no node (C05_untouched). Tied to /repo by mounting thousands of generated views with the REAL DOM back end (dom_node.rs, _create_dynamic_view, Show, attribute effects) on an in-process DOM, writing signals, and comparing the serialised document INCLUDING node identities (canonically renamed by first appearance) with the model after every write; the real document is additionally compared with a real fresh render of the current state.",
    "manifest_note": "The reactive scheduling below the view layer is abstracted by its contract (exactly the regions that track the written signal re-run, outer before inner, inner destroyed by an outer re-run), which is what C01-C04 establish; view language: elements with static/dynamic/boolean-dynamic attributes, text, dynamic text, dynamic views over alternatives (incl. empty and multi-node), Show, fragments — no events/bind/Keyed inside arbitrary views (lists: C06). Browser replaced by the in-process DOM (shim).",
    "lean_modules": ["SycVerif.Props.C05"],
    "theorems": [DV + n for n in ["C05_update_eq_fresh", "C05_one_write", "C05_update_realizes", "C05_updateList_realizes", "C05_realizes_shape", "C05_mount_realizes",
                                  "C05_fresh_render_counter_irrelevant", "C05_fresh", "C05_identity_kept", "C05_identity_kept_list", "C05_dom_outside_regions_same",
                                  "C05_new_nodes_are_new", "C05_ids_distinct_always", "C05_untouched", "C05_dom_ids"]],
    "engines": [{"harness": "dom", "engine": "view"}],
    "classes": ["view-stale", "view-panic"],
    "status": "full statement proved over the model (all views of the modelled language, all histories)",
    "partial": [],
    "rule": "5 hand-written families (dynamic regions nested in elements, fragments, other dynamic regions and Show, x 3 stores and write histories) + 4000 (quick) / 150000 (thorough) random views: depth <= 4, <= 12 nodes, 1-3 signals, 1-8 writes with values 0..6 (alternative index = value mod n, Show visible iff odd, dynamic attribute absent iff value mod 3 = 0). distinct = distinct request line; non-trivial = at least one write",
    "trusted": ["in-process DOM (shim/web-sys) instead of a browser", "hook cfg(sycamore_verif_dom): back-end selection on the native target"],
    "assumptions": ["the contract of the reactive layer (C01-C04) for the effects behind dynamic parts"],
}

# seeded change C01-marks-reset-late showed that C01/C02 must also run programs whose effects write
# signals (nested propagations): use all three generator profiles; C03 also owns the subscriber-count class
for _p in ("C01", "C02"):
    CHECKS[_p]["engines"][0].pop("args", None)
CHECKS["C03"]["classes"] = CHECKS["C03"]["classes"] + ["stale-subscribers"]

# --- composition theorems delivered later: Keyed/Indexed as Lean theorems; justification of runs
KD = "SycVerif.KeyedDom."
CHECKS["C06"]["lean_modules"] = ["SycVerif.Props.C06", "SycVerif.Props.C07", "SycVerif.Props.C06Keyed"]
CHECKS["C06"]["theorems"] += [KD + n for n in ["C06_keyed_region", "C06_keyed_history", "C06_keyed_history_born", "C06_indexed_region",
                                                "C06_indexed_history", "C06_keyed_region_driver", "C06_indexed_region_driver"]]
CHECKS["C06"]["status"] = ("full statement proved over the model: the diffing routine for all pairs and all siblings (C06_reconcile), and the Keyed / Indexed components as the composition "
                           "list mapping + reconcile over EVERY history of duplicate-free (Keyed) / arbitrary (Indexed) lists: after every update the region between the markers shows the items in order, "
                           "a retained key (Keyed) / index (Indexed) keeps the very node it was born with, removed items' nodes are detached, siblings untouched (C06_keyed_history, C06_keyed_history_born, C06_indexed_history)")
CHECKS["C06"]["partial"] = []
CHECKS["C06"]["manifest_note"] = CHECKS["C06"]["manifest_note"].replace(" The composition Keyed = map_keyed + reconcile is in the driver (executable), not a separate Lean theorem.",
    " The composition Keyed = map_keyed + reconcile is a Lean theorem (Props/C06Keyed) about the same definitions the driver executes.")
CHECKS["C02"]["lean_modules"] = CHECKS["C02"]["lean_modules"] + ["SycVerif.Props.C02Runs"]
CHECKS["C02"]["theorems"] += [RX + n for n in ["C02_run_marks_dependents", "C02_selector_blocks", "C02_runs_justified", "C02_runs_only_if_read_changed",
                                                "C02_unjustified_not_rerun", "C02_runs_justified_static"]]
CHECKS["C02"]["status"] += ("; clause (iii) as theorems for branch-free AND branching bodies without late edges: every run of a propagation is justified by the written signal or by a tracked dependency "
                            "that re-ran and reported a change (plain memos always, selectors only when the value differs), and a computation none of whose tracked dependencies changed is not re-run "
                            "(C02_runs_justified, C02_runs_only_if_read_changed, C02_unjustified_not_rerun)")

# every check of the reactive engine runs all generator profiles (pure, read forms, everything,
# pure + effect writes): a change in one feature often shows only in combination with another
for _p, _c in CHECKS.items():
    for _e in _c.get("engines", []):
        if _e.get("engine") == "reactive":
            _e.pop("args", None)

# --- C09: adoption procedure as Lean theorems over Model/Hydrate.lean (delivered by a proof sub-agent)
HY = "SycVerif.Hydrate."
CHECKS["C09"]["lean_modules"] = ["SycVerif.Props.C12Keys", "SycVerif.Props.C08", "SycVerif.Props.C09"]
CHECKS["C09"]["theorems"] += [HY + n for n in ["C09_hydrate_total", "C09_hydrate_total_fuel", "C09_fuel_irrelevant", "C09_visible_unchanged", "C09_all_adopted_once",
                                                "C09_markers_consumed", "C09_matches_client_render", "C09_server_matches_client_render", "C09_mount_hypotheses", "C09_mounted_view"]]
CHECKS["C09"]["status"] = ("adoption proved over the model for every Show-free view, every store: hydrating the server document of a view never fails (C09_hydrate_total, any fuel above an explicit bound), "
                           "leaves the visible tree unchanged (C09_visible_unchanged), adopts every server element exactly once and creates none (C09_all_adopted_once), consumes every `<!--/-->` and `<!--t-->` "
                           "marker and leaves one `<!--#-->` per dynamic region (C09_markers_consumed), and the result is the tree a client render of the same view and state produces (C09_matches_client_render); "
                           "keys_agree and the round trip proved; Show hydration is a known finding (D12) and is excluded by the hypothesis ShowFreeList")
CHECKS["C09"]["partial"] = [{"theorem": "C09 for views containing Show", "missing": "false on the real code (known finding D12); the model has no Show adoption"},
                            {"theorem": "C09_hydrate_total_showFree_only", "missing": "the model recognises adopted elements by a stamp attribute named U+0001; a view that itself uses that attribute name is excluded by the extra hypothesis StampFreeList (proved necessary: Example.C09_stamp_hypothesis_needed) — an encoding artefact, the generator never produces such names"},
                            {"theorem": "reactivity after hydration", "missing": "that the adopted document then follows signal writes is C05 over the adopted nodes; the identification of the hydrated state with a mounted C05 state is by correspondence (the engine writes signals after hydrating)"}]
CHECKS["C09"]["manifest_note"] = ("Model/Hydrate.lean mirrors HydrateNode::append_child / hydrate_in_scope (k-th dynamic region finds its `<!--/-->` end marker, dynamic text splits off after `<!--t-->`, elements are looked up by key) "
                                  "and is run by the driver against the real hydrate back end on every generated view (document structure after hydration and after each write). Known finding D12: hydrating the Show component — reported as KNOWN-FINDING; "
                                  "any other hydration failure is a violation. Views with NoHydrate/NoSsr/Keyed are not in the view language yet.")
CHECKS["C01"]["classes"] = CHECKS["C01"]["classes"] + ["missed-run"]

# --- C10 clause (ii): end-of-batch consistency, multi-start propagation (delivered by a proof sub-agent)
CHECKS["C10"]["lean_modules"] = CHECKS["C10"]["lean_modules"] + ["SycVerif.Props.C10Batch"]
CHECKS["C10"]["theorems"] += [RX + n for n in ["C10_batch_end_consistent", "C10_batch_end_consistent_run", "C10_batch_end_consistent_sharp", "C10_batch_end_consistent_runC",
                                                "C10_batch_end_written", "C10_batch_single", "C10_batch_consistent_at_end", "C10_batch_consistent_at_end_sharp",
                                                "C10_batch_consistent_at_end_run", "C10_batch_consistent_at_end_runC", "batch_silent_counterexample",
                                                "batchDemo_instance", "batchDemo_writes_instance", "batchDemo2_instance"]]
CHECKS["C10"]["status"] = ("all three clauses proved over the model: (i) nothing reacts inside a batch at any depth (C10_batch_*_quiet), (iii) an empty batch is a no-op, and (ii) for every pure program "
                           "(DynArena) and every write-only batch body without late edges, the end of the outermost batch — propagateNodeUpdates over ALL written signals, duplicates included, with the "
                           "mark reset of the D13 repair — ends in a consistent arena, every computation ran at most once, only reachable ones ran, and every direct dependent of a written signal ran "
                           "(C10_batch_end_consistent, C10_batch_consistent_at_end and their sharper variants); with late edges the statement is false (known finding D1), and with set_silent inside the batch "
                           "it is false by design (batch_silent_counterexample)")
CHECKS["C10"]["partial"] = [{"theorem": "C10 (ii) for impure bodies", "missing": "batch bodies that create/dispose nodes, and computations that write signals during the end-of-batch propagation (the D13 scenario): correspondence + oracle only"}]

# --- C09 with NoHydrate islands (model extended, proofs redone by a proof sub-agent)
CHECKS["C09"]["theorems"] += [HY + n for n in ["C09_all_adopted_once_split", "C09_all_adopted_once_islandFree", "C09_matches_client_render_islandFree",
                                                "C09_server_matches_client_render_islandFree", "C09_after_hydration_now", "C09_island_frozen", "C09_island_inert"]]
CHECKS["C09"]["status"] = CHECKS["C09"]["status"].replace("adoption proved over the model for every Show-free view, every store:",
    "adoption proved over the model for every Show-free view (NoHydrate islands included: rendered by the server without keys and markers, skipped by the client, left literally identical by hydration — keylessEls; Show inside an island is allowed), every store:")
CHECKS["C09"]["manifest_note"] = CHECKS["C09"]["manifest_note"].replace("Views with NoHydrate/NoSsr/Keyed are not in the view language yet.",
    "NoHydrate is in the view language (model, theorems, generator; it exposed and now guards defect D14); NoSsr and Keyed/Indexed under hydration are not.")

# --- E9 "assr": blocking and streaming server rendering with suspense (C12 async clauses, C13 SSR clauses)
_assr_rule = ("async SSR: 10 hand-written families (boundaries nested to depth 3, siblings, boundaries inside dynamic regions, async components in and outside boundaries, one resource read under "
              "several boundaries) x EVERY completion order of their tasks/resources, each also with the last completion missing (blocking must hang, the stream must stay open); 700 (quick) / "
              "20000 (thorough) random views (depth <= 4, <= 9 nodes: elements, text, Suspense, async components, input-less dynamic regions, resources) x the three modes with a shuffled schedule "
              "(every 6th incomplete). Real tokio current-thread LocalSet; every await point is a oneshot the harness completes; after each event the executor is drained and the harness records "
              "when render_to_string_await_suspense returns and which chunks render_to_string_stream yields. Every case is rendered twice (with another render in between). "
              "distinct = distinct request line; non-trivial = at least one event")
CHECKS["C12"]["engines"] = CHECKS["C12"]["engines"] + [{"harness": "native", "engine": "assr"}]
CHECKS["C12"]["classes"] = CHECKS["C12"]["classes"] + ["ssr-keys", "ssr-determinism", "ssr-panic"]
CHECKS["C12"]["rule"] = CHECKS["C12"]["rule"] + " || " + _assr_rule
CHECKS["C13"]["engines"] = CHECKS["C13"]["engines"] + [{"harness": "native", "engine": "assr"}]
CHECKS["C13"]["classes"] = CHECKS["C13"]["classes"] + ["stream-parent-first", "stream-once", "stream-equals-blocking", "stream-apply", "ssr-panic"]
CHECKS["C13"]["rule"] = CHECKS["C13"]["rule"] + " || " + _assr_rule

# --- theorems over Model/Assr.lean (delivered by a proof sub-agent)
AR = "SycVerif.Assr."
CHECKS["C12"]["lean_modules"] = CHECKS["C12"]["lean_modules"] + ["SycVerif.Props.C12Assr"]
CHECKS["C12"]["theorems"] += [AR + n for n in ["C12_keys_nodup", "C12_keys_dense", "C12_suspense_keys", "C12_sync_no_suspense", "C12_first_keys", "C12_run", "C12_stream"]]
CHECKS["C12"]["status"] = ("key discipline and determinism proved for sync rendering of all views (C12_keys …) AND for blocking/streaming rendering over Model/Assr: in every reachable state — any view with "
                           "Suspense boundaries, async components, dynamic regions and resources, any completion order, any interleaving of stream emissions — the hydration keys are pairwise distinct, "
                           "those of each suspense scope are exactly 0..n-1 (dense, in creation order), the suspense keys are exactly 1..m (C12_keys_nodup, C12_keys_dense, C12_suspense_keys); "
                           "byte-identical repeats and constant node counts: the model is a function of view and schedule; the real code is rendered twice with another render in between by the engine")
CHECKS["C12"]["partial"] = [{"theorem": "C12 isolation across ABANDONED renders", "missing": "a blocking/streaming render dropped half-way leaves its scope on the thread until the next render disposes it; not exercised and not modelled"}]
CHECKS["C13"]["lean_modules"] = CHECKS["C13"]["lean_modules"] + ["SycVerif.Props.C13Assr"]
CHECKS["C13"]["theorems"] += [AR + n for n in ["C13_counts", "C13_registered_exists", "C13_blocking_returns_iff_all_done", "C13_settle_complete", "C13_sendReadyK_agrees", "C13_streamAll_world",
                                                "C13_sendReady_flags", "C13_step_keeps_sent", "C13_stream_once", "C13_stream_sent_iff_emitted", "C13_stream_parent_first", "C13_parent_smaller",
                                                "C13_stream_parent_before", "C13_fragment_stable", "C13_region_registered", "C13_emitted_fragment_final", "C13_render_pieces", "C13_final_shows",
                                                "C13_shell_shows", "C13_page_from_fragments", "C13_stream_equals_blocking", "C13_stream_run_equals_blocking"]]
CHECKS["C13"]["status"] = ("reactive-level statement proved for all trees and all schedules (C13_*), and the SSR clauses proved over Model/Assr: the blocking render returns exactly when no task registered under a "
                           "boundary is unfinished (C13_counts, C13_blocking_returns_iff_all_done); the stream emits each boundary's fragment at most once (C13_stream_once), never before its parent's "
                           "(C13_stream_parent_first, C13_stream_parent_before), an emitted fragment is final (C13_emitted_fragment_final, C13_fragment_stable), and once every boundary is sent the page assembled "
                           "from shell + fragments shows what the blocking render shows (C13_stream_equals_blocking, tree level)")
CHECKS["C13"]["partial"] = [{"theorem": "string-level application of fragments", "missing": "the client script's splice of a <template> into the document is not formalised; the harness applies the fragments to the real shell text and compares visible content with the real blocking render"},
                            {"theorem": "order of unrelated fragments within one executor turn", "missing": "follows the scheduling of effects; canonicalised in the correspondence (listed by key), parent-first judged by the oracle on the real order"}]
CHECKS["C09"]["classes"] = CHECKS["C09"]["classes"] + ["hydrate-list"]
CHECKS["C09"]["partial"] = CHECKS["C09"]["partial"] + [{"theorem": "C09 for views containing Keyed / Indexed", "missing": "false on the real code (known finding D17: lists cannot be hydrated at all); not modelled"}]
CHECKS["C09"]["manifest_note"] = CHECKS["C09"]["manifest_note"].replace("NoSsr and Keyed/Indexed under hydration are not.", "Keyed under hydration is generated (4 families x 4 stores) and is a known finding (D17: the server renders no markers for lists, every such view panics on hydration); NoSsr is not in the language.")
CHECKS["C09"]["manifest_note"] = CHECKS["C09"]["manifest_note"].replace("NoSsr is not in the language.", "NoSsr is generated (3 families x 4 stores) and judged by the oracle only (after hydration and after every write the document shows what a client render shows); it is not modelled.")
CHECKS["C09"]["partial"] = CHECKS["C09"]["partial"] + [{"theorem": "C09 for views containing NoSsr", "missing": "the placeholder replacement after mount is not modelled; oracle only"}]

# --- async model with resources created inside the tree and reads held by the resource
CHECKS["C13"]["theorems"] += [AS + n for n in ["C13_task_counter_alive_noUse", "C13_local_noUse", "C13_owner_exists", "C13_owner_constant"]]
CHECKS["C14"]["theorems"] += [AS + n for n in ["C14_resource_task", "C14_use_task", "C14_owner", "C14_use_released_with_owner", "C14_use_survives_reader_scope"]]

# --- theorems about the repairs D19 (unsubscribe before the teardown) and D13 (start marks reset)
CHECKS["C04"]["lean_modules"] = CHECKS["C04"]["lean_modules"] + ["SycVerif.Props.C04Repairs"]
CHECKS["C04"]["theorems"] += [RX + n for n in ["C04_unsubscribed_not_dependent", "C04_unsubscribed_detached", "C04_detached_not_run", "C04_dispose_no_self_rerun",
                                                "C04_dispose_no_self_rerun_reachable", "C04_dispose_stmt_no_self_rerun", "C04_old_dispose_reruns_itself", "C04_kind_discipline_needed",
                                                "C04_dispose_runs_registered_cleanups_in_order", "C04_dispose_runs_registered_cleanups_once", "C04_dispose_cleanups_run_node_not",
                                                "reachable_kindOk", "reachable_tagInv"]]
CHECKS["C04"]["status"] += ("; for ARBITRARY cleanups (no purity assumption) in every reachable state: disposing a node never re-runs that node (C04_dispose_no_self_rerun — false for the pre-D19 code: "
                            "C04_old_dispose_reruns_itself) and every cleanup registered on it runs exactly once, in order (C04_dispose_runs_registered_cleanups_once)")
CHECKS["C04"]["partial"] = [{"theorem": "exactly-once for the cleanups of the whole SUBTREE when cleanups have side effects", "missing": "a cleanup registered through run_in(node) while that node's own cleanups are running is dropped unrun by the model (and the code): not claimed"}]
CHECKS["C10"]["lean_modules"] = CHECKS["C10"]["lean_modules"] + ["SycVerif.Props.C04Repairs"]
CHECKS["C10"]["theorems"] += [RX + n for n in ["C10_start_marks_reset", "C10_start_marks_reset_in_propagation", "C10_nested_dfs_traverses_start", "C10_nested_propagation_schedules",
                                                "C10_nested_dfs_skips_perm_start", "C10_nested_propagation_from_perm_runs_nothing", "C10_batch_nested_write_example", "C10_batch_nested_write_old"]]
CHECKS["C04"]["classes"] = CHECKS["C04"]["classes"] + ["zombie-run"]
CHECKS["C11"]["classes"] = CHECKS["C11"]["classes"] + ["zombie-run"]

# --- repair D22 (a re-run stops when a cleanup disposed the node)
CHECKS["C11"]["lean_modules"] = CHECKS["C11"]["lean_modules"] + ["SycVerif.Props.C11Repairs"]
CHECKS["C11"]["theorems"] += [RX + n for n in ["runNodeUpdate_eq_prefix_tail", "runNodeUpdate_eq_old", "C11_rerun_stops_eq", "C11_rerun_stops_when_disposed",
                                                "C11_rerun_stops_when_disposed_reachable", "C11_rerun_owner_disposed_example", "C11_rerun_owner_disposed_no_panic", "C11_old_rerun_panics"]]

# --- level notes brought in line with what is proved now (status / partial hold the details)
CHECKS["C02"]["manifest_note"] = ("Clause (i) (no stale read) for edges that APPEAR during the propagation is FALSE on the code (known finding D1, class late-edge, "
    "reported as KNOWN-FINDING, proved false in C01_full_false); without late edges it is part of the loop invariant of C01_dynamic_set_run "
    "(a computation reads only computations that are not pending). Clause (ii) at most one run: C02_schedule_no_duplicates + C01. Clause (iii) "
    "(runs only if something tracked was written / re-ran / changed): Props/C02Runs for branch-free and branching pure bodies. Bodies that write "
    "signals are outside the property; bodies that create/dispose nodes are covered by the oracles and the correspondence only.")
CHECKS["C03"]["manifest_note"] = ("Tracker discipline is proved for every body; every (re-)run links exactly the live tracked nodes (C04_link_exact) and drops the "
    "previous subscriptions first (C04_rerun_unsubscribes); every reachable state of every program has a dangling-free symmetric subscription graph. "
    "'Dependencies = tracked reads of the latest run' as a statement about states AT REST is a theorem for pure bodies (C01_dynamic_set); for bodies "
    "that create/dispose nodes or write it is checked by the edges/missed-run/unjustified-run/stale-subscribers oracles on the cases run.")
CHECKS["C04"]["manifest_note"] = ("Structural clauses (exactly the ownership subtree dies, survivors lose only dead ids, live count, idempotence, termination) hold in "
    "every reachable state of every program (reachable_inv). Cleanups: exactly once, in order, untracked — proved for the whole subtree when cleanups "
    "only read (disposeNode_spec), and for ARBITRARY cleanups for the cleanups registered on the disposed node itself together with 'the disposed node "
    "never runs again' (Props/C04Repairs, repair D19). Exactly-once across the whole subtree with side-effecting cleanups is checked by the "
    "cleanup-twice/cleanup-missing/zombie-run oracles and the correspondence.")
CHECKS["C10"]["manifest_note"] = ("All three clauses are theorems over the model: nothing reacts inside a batch at any depth, an empty batch is a no-op, and at the end "
    "of the outermost batch the multi-start propagation (duplicates in the queue, the mark reset of repair D13) ends consistent with each computation "
    "run at most once and every direct dependent of a written signal run — for pure computations, write-only batch bodies and no late edge "
    "(false with set_silent in the batch: batch_silent_counterexample). Batch bodies that create/dispose nodes and computations that write: oracle "
    "and correspondence only.")
CHECKS["C12"]["manifest_note"] = ("Sync, blocking and streaming renders are modelled (Model/Ssr for strings and keys of sync renders; Model/Assr for key creation order per "
    "suspense scope, suspense keys, holes and fragments of blocking/streaming renders) and compared with the real render functions. Root::reinit and the "
    "thread-local SSR root (what makes renders independent of history) are NOT modelled: isolation is established on the real code by rendering every "
    "case twice with unrelated renders (finished, panicking, abandoned blocking renders) in between and comparing bytes, key multisets and the live node "
    "count (hook node_count). use_stable_counter likewise by the real code only.")
CHECKS["C13"]["manifest_note"] = ("Reactive-level clause: proved over the task/boundary machine for all trees and completion orders. SSR clauses: proved over Model/Assr "
    "(blocking returns iff all tasks done; each boundary streamed once, after its parent; page assembled from fragments = blocking page). The "
    "string-level splice performed by the inline client script is replayed by the harness (a model of the script), not proved. Executor behaviour "
    "(tokio LocalSet, wake order) is assumed, see trusted base.")

# --- Root::reinit (RootHandle::dispose; what every server render starts with) as part of the model: Props/C04Reinit
_reinit = [RX + n for n in ["C04_reinit_shape", "C12_reinit_live_count", "C04_reinit_handles_dead", "C04_reinit_no_alias", "C04_reinit_inv",
                            "C04_reinit_cleanups_once", "C04_reinit_total", "reachable_gens_inv", "reachable_gens_errors",
                            "C04_gens_old_handles_stay_dead", "C04_reinitOld_aliases", "C04_reinit_no_alias_example"]]
CHECKS["C04"]["lean_modules"] = CHECKS["C04"]["lean_modules"] + ["SycVerif.Props.C04Reinit"]
CHECKS["C04"]["theorems"] += _reinit
CHECKS["C04"]["status"] += ("; Root::reinit (Props/C04Reinit): for EVERY state, a successful reinit leaves exactly one live node, the fresh root, under a key no earlier "
    "generation used (repair D20; false for the old code: C04_reinitOld_aliases), every earlier handle is dead and stays dead in all later generations, the "
    "invariants hold again, cleanups run exactly once (inert cleanups), and programs over any number of generations fail only with documented panics")
CHECKS["C04"]["classes"] = CHECKS["C04"]["classes"] + ["orphan-born-in-teardown"]
CHECKS["C12"]["lean_modules"] = CHECKS["C12"]["lean_modules"] + ["SycVerif.Props.C04Reinit"]
CHECKS["C12"]["theorems"] += [RX + n for n in ["C12_reinit_live_count", "C04_reinit_shape", "C04_reinit_no_alias"]]
CHECKS["C11"]["lean_modules"] = CHECKS["C11"]["lean_modules"] + ["SycVerif.Props.C04Reinit"]
CHECKS["C11"]["theorems"] += [RX + n for n in ["reachable_gens_errors", "reachable_gens_inv"]]
CHECKS["C12"]["manifest_note"] = CHECKS["C12"]["manifest_note"].replace("Root::reinit and the thread-local SSR root (what makes renders independent of history) are NOT modelled:",
    "Root::reinit IS modelled since (Model/Reactive.reinit, theorems in Props/C04Reinit: one live node afterwards, fresh keys, invariants; compared with the real RootHandle::dispose by two-generation programs of the reactive engine); the thread-local SSR roots around it are not:")
CHECKS["C10"]["classes"] = CHECKS["C10"]["classes"] + ["batch-missed-run"]

# --- repair D23 (dispose loops until the node holds nothing): Props/C04Orphans
CHECKS["C04"]["lean_modules"] = CHECKS["C04"]["lean_modules"] + ["SycVerif.Props.C04Orphans"]
CHECKS["C04"]["theorems"] += [RX + n for n in ["C04_disposeRest_drains", "C04_disposeRest_noop", "disposeRest_inv", "C04_dispose_leaves_no_child",
    "C04_dispose_leaves_no_child_of_alive", "C04_dispose_keeps_noOrphan", "execStmt_noOrphan", "C04_reachable_noOrphan",
    "C04_dispose_leaves_no_child_reachable", "C04_teardown_born_node_disposed", "C04_noLoop_leaves_orphan", "C04_leaves_no_child_needs_hypothesis"]]
CHECKS["C04"]["status"] += ("; no orphans (Props/C04Orphans, repair D23): in EVERY reachable state every live node that has an owner has a LIVE owner "
    "(C04_reachable_noOrphan: the live nodes are exactly those owned by live scopes), disposing a node leaves no live node owned by it, for arbitrary cleanups; "
    "false without the loop of the repair (C04_noLoop_leaves_orphan)")
CHECKS["C12"]["classes"] = CHECKS["C12"]["classes"] + ["ssr-isolation", "hang"]
CHECKS["C13"]["classes"] = CHECKS["C13"]["classes"] + ["ssr-isolation", "hang"]

# --- boundaries that READ a resource (Model/Async ResR, mode resourcerd): Props/C13Readers
CHECKS["C13"]["lean_modules"] = CHECKS["C13"]["lean_modules"] + ["SycVerif.Props.C13Readers"]
CHECKS["C13"]["theorems"] += [AS + n for n in ["C13_readers_reachable", "C13_readers_released", "C13_reader_guard_survives_write",
    "C13_reader_guard_survives_stale_finish", "C13_reader_read", "C13_recorded_reader_suspended_by_next_fetch"]]
CHECKS["C13"]["status"] += ("; boundaries that read a resource (Props/C13Readers): for every sequence of reads, reader disposals, dependency writes, completions of any fetch and "
    "the disposal of the owner, a boundary holds a guard only while the latest fetch is outstanding and the owner lives, a dependency change or the completion of a superseded "
    "fetch does not release it, the next fetch suspends the boundaries recorded in between")
CHECKS["C09"]["classes"] = CHECKS["C09"]["classes"] + ["hydrate-build-write-attr"]
CHECKS["C05"]["classes"] = (CHECKS["C05"].get("classes") or []) + ["view-write-before-mount"]
# C11 "without corrupting later updates": the consistency oracles on the surviving graph belong to C11 as well
CHECKS["C11"]["classes"] = CHECKS["C11"]["classes"] + ["stale-value", "missed-run", "dirty-at-rest", "cleanup-missing", "cleanup-twice"]
CHECKS["C04"]["partial"] = [{"theorem": "exactly-once for the cleanups of the whole SUBTREE when cleanups have side effects",
    "missing": "proved for the cleanups registered on the disposed node when the disposal starts (arbitrary cleanups) and for the whole subtree when cleanups only read (disposeNode_spec); since repair D23 cleanups registered during the teardown run too (later rounds of the loop, Props/C04Orphans), but a general 'each exactly once' statement over the whole subtree for side-effecting cleanups is checked by the cleanup-twice/cleanup-missing oracles and the correspondence only"}]
for _p in ["C01", "C02", "C03", "C04", "C10", "C11", "C16"]:
    CHECKS[_p]["rule"] = CHECKS[_p].get("rule", "") + (" || later additions: two-generation programs with (reinit) in between (one program in 16, 60 families), cleanups that go back into their own scope "
        "through a captured handle during a teardown, computations created inside a batch that read and write a signal, cleanups registering cleanups while the root goes away; "
        "every read/write statement rotates through all equivalent API forms")

# --- C10 third clause without purity assumptions: every subscriber of a written signal runs (Props/C10Subscribers)
_subs = [RX + n for n in ["C10_subscribers_of_written_run", "C01_subscribers_of_written_run_set", "C10_batch_subscribers_run",
                          "C10_reachable_batch_subscribers_run", "C10_program_batch_subscribers_run", "C10_subscribers_nonvacuous", "reachable_atRest"]]
CHECKS["C10"]["lean_modules"] = CHECKS["C10"]["lean_modules"] + ["SycVerif.Props.C10Subscribers"]
CHECKS["C10"]["theorems"] += _subs
CHECKS["C10"]["status"] += ("; for ARBITRARY closures (Props/C10Subscribers): every computation subscribed to a written signal when the propagation starts — for a batch: when the body of the "
    "outermost batch has ended — has run by the time propagate_node_updates / the batch statement returns, or is gone; lifted to every program (C10_program_batch_subscribers_run); between "
    "top-level operations nothing is marked, running or batching (reachable_atRest)")
CHECKS["C01"]["lean_modules"] = CHECKS["C01"]["lean_modules"] + ["SycVerif.Props.C10Subscribers"]
CHECKS["C01"]["theorems"] += [RX + "C01_subscribers_of_written_run_set", RX + "reachable_atRest"]
CHECKS["C03"]["lean_modules"] = CHECKS["C03"]["lean_modules"] + ["SycVerif.Props.C10Subscribers"]
CHECKS["C03"]["theorems"] += [RX + "C01_subscribers_of_written_run_set"]
CHECKS["C10"]["partial"] = [{"theorem": "C10 (ii) 'state is consistent as after a single write' for impure bodies", "missing": "consistency of VALUES at the end of the batch is proved for pure computations and write-only batch bodies (C10_batch_end_consistent); "
    "for arbitrary closures what is proved is that every subscriber of a written signal RAN (C10_batch_subscribers_run) and that nothing ran inside the batch; value consistency there is checked by the oracles"}]

# --- tasks that dispose their own scope while they are being polled (Model/Async completeX / stepX): Props/C14Suicide
CHECKS["C14"]["lean_modules"] = CHECKS["C14"]["lean_modules"] + ["SycVerif.Props.C14Suicide"]
CHECKS["C14"]["theorems"] += [AS + n for n in ["C14_stepX_nil", "C14_runX_nil", "C14_stepX_other", "C14_suicide_polls", "C14_suicide_scopes", "C14_suicide_scope_dead",
    "C14_suicide_not_pending", "C14_suicide_self", "C14_suicide_cancels", "C14_suicide_others", "C14_suicide_pending_antitone", "C14_suicide_no_poll_after",
    "C14_suicide_no_poll_after'", "C14_suicide_last_poll", "C14_suicide_as_two_steps'", "C14_suicide_as_two_steps_obs", "C14_suicide_invariant"]]
CHECKS["C14"]["status"] += ("; a task whose body disposes the scope it was spawned in (aborted WHILE it is polled; Props/C14Suicide, machine stepX): the body resumes exactly once, "
    "afterwards no task of the disposed subtree (the task itself included) is pending or ever polled again for EVERY later event sequence (C14_suicide_no_poll_after), surviving "
    "boundaries are released; with await points left the step equals a completion followed by a disposal (C14_suicide_as_two_steps'), at the last await point up to the counters of dead boundaries "
    "(C14_suicide_as_two_steps_obs); stepX [] = step")

# a context lookup made while a scope is torn down (by a cleanup) belongs to C16 and to C11 ("without corruption")
CHECKS["C16"]["classes"] = CHECKS["C16"]["classes"] + ["context-in-teardown"]
CHECKS["C11"]["classes"] = CHECKS["C11"]["classes"] + ["context-in-teardown"]

# --- repair D28: a fetch superseded while it is finishing delivers nothing (mode resourceself): Props/C15Self
CHECKS["C15"]["lean_modules"] = CHECKS["C15"]["lean_modules"] + ["SycVerif.Props.C15Self"]
CHECKS["C15"]["theorems"] += [AS + n for n in ["C15_superseded_while_finishing", "C15_superseded_while_finishing_obs"]]
CHECKS["C15"]["status"] += ("; a fetch that is superseded WHILE it is finishing (its own last step changes the dependency; repair D28, mode resourceself): "
    "in the machine the change comes first, and the completion of the superseded fetch changes nothing (C15_superseded_while_finishing)")

# --- batch2 views are part of the SSR model (VSpec.batch2): keys for ALL views are a permutation of the dense interval
CHECKS["C12"]["theorems"] += [SS + n for n in ["C12_keys_all", "C12_keys_mem", "buildList_keys_perm", "buildList_counter"]]
CHECKS["C12"]["status"] += ("; views with a batch made while they are built (VSpec.batch2: two regions that take their keys in the order in which end_batch re-runs them, "
    "not in document order) are in the model: for ALL views the keys are a duplicate-free PERMUTATION of (s,k)…(s,k'-1) and the counter advances by the number of elements "
    "(C12_keys_all, C12_keys_mem); the document-order statement C12_keys holds for views without batch2 (NoBatch2List), a decide example shows it fails with it")
# --- reader boundaries with a task of their own, observers that write the dependency, self-superseding fetches: in the model
CHECKS["C13"]["lean_modules"] = CHECKS["C13"]["lean_modules"] + ["SycVerif.Props.C13ReaderTasks"]
CHECKS["C13"]["theorems"] += [AS + n for n in ["C13_readertask_inv", "C13_readertask_aligned", "C13_readertask_loading", "C13_taskDone_base", "C13_taskDone_others",
    "C13_taskDone_carrier", "C13_taskDone_at_most_one", "C13_readertask_refines_init", "C13_readertask_readersOk", "C13_readertask_released", "C13_readertask_refetch",
    "rwStep_eq", "C13_rw_reachable", "C13_rw_released", "C13_rw_fires", "C13_rw_after"]]
CHECKS["C13"]["status"] += ("; reader boundaries with a task of their own (machine ResRT/rtStep, Props/C13ReaderTasks): the tasks never influence the resource machine (refinement "
    "C13_readertask_refines_init: every C13Readers theorem transfers), completing a task changes the loading state of its carrier only, and a recorded reader whose task is pending when a "
    "refetch starts is STILL loading after its task completes, over every stale completion, until the latest fetch delivers (C13_readertask_refetch); observers that write the dependency "
    "when their boundary resolves (rwStep): each step is one or two machine steps, the reachability invariant is kept")
CHECKS["C15"]["lean_modules"] = CHECKS["C15"]["lean_modules"] + ["SycVerif.Props.C13ReaderTasks"]
CHECKS["C15"]["theorems"] += [AS + n for n in ["C15_self_supersedes", "C15_self_supersedes_eq", "C15_self_otherwise", "runSelf_eq_rrun", "C15_self_no_delivery", "C15_self_invariants",
    "C15_self_value_is_latest_completed", "C15_self_loading_iff_latest_outstanding"]]
CHECKS["C15"]["status"] += ("; selfStep (the fetch future moves the dependency on as its last step) is a machine step of a translated history (runSelf_eq_rrun), so every C15 invariant holds "
    "for such runs (C15_self_invariants); the superseded completion delivers nothing (C15_self_no_delivery)")

CHECKS["C12"]["manifest_text"] = CHECKS["C12"]["manifest_text"].replace(
    "the stamped keys are exactly (s,k),(s,k+1),… in document order — dense and duplicate-free — and the counter advances by the number of elements (C12_keys, C12_keys_nodup)",
    "the stamped keys are a duplicate-free permutation of (s,k),(s,k+1),… and the counter advances by the number of elements (C12_keys_all, C12_keys_nodup); "
    "they are in document order for every view without a batch made while it is built (C12_keys; with such a batch the regions take their keys in the order in which the batch re-runs them)")

# --- repair D29 (mode resourcebo, machine boStep): Props/C15Self
CHECKS["C15"]["theorems"] += [AS + n for n in ["C15_boundary_observer_step", "C15_boundary_observer_write"]]
CHECKS["C15"]["status"] += ("; an observer of the resource's own boundary that moves the dependency on when the boundary starts loading (repair D29, mode resourcebo): "
    "every step is a machine step of a translated event (C15_boundary_observer_step), the fetch a write starts is one for the value the dependency has afterwards")

# --- round 11: the value TYPE of a memo (seeded change C02-zst-memo-never-changes): `(zmemo …)` = a plain memo with a zero-sized value type
_ZST = (" Value types: the generated memos all have the value type i64; plain memos with a ZERO-SIZED value type are exercised by the corpus programs "
        "`corpus/reactive/zst.case` only (statement `(zmemo …)`, read by the model as a plain memo); other value types are not exercised (DESIGN.md R.6, eleventh round).")
CHECKS["C01"]["manifest_note"] += _ZST
CHECKS["C02"]["manifest_note"] += _ZST
