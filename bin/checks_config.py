"""Per-property configuration of bin/check."""

ALLOWED_AXIOMS = {"propext", "Classical.choice", "Quot.sound"}

COMMON_TRUSTED = [
    "Lean 4.33.0 kernel (thorough tier: re-checked by leanchecker); axioms allowed: propext, Classical.choice, Quot.sound; no sorry/admit/native_decide/bv_decide/own axioms (source audit + #print axioms on every run)",
    "the statements in lean/SycVerif/Props/*.lean and Spec/*.lean (to be read by a human)",
    "hand-written Lean model tied to /repo by the correspondence check only: agreement is shown on the cases run (counts in this file), not proved",
    "Rust harness (generators, canonicaliser, implementation-side oracle), Python orchestrator, Lean compiler for the driver binary",
]

R = "SycVerif.Route."
CHECKS = {
    "C17": {
        "lean_modules": ["SycVerif.Props.C17"],
        "theorems": [R + "C17_matchPath_iff_fits", R + "C17_fit_unique", R + "C17_captures_align",
                     R + "C17_captures_reproduce", R + "C17_urlSegments_clean",
                     R + "C17_url_ignores_query_fragment", R + "C17_matchRoute_total", R + "C17_matchRoute_first"],
        "engines": [{"harness": "native", "engine": "route"}],
        "status": "full statement proved over the model (all patterns, all paths, all enums of the modelled shape)",
        "rule": "exhaustive: every well-formed pattern over {a,b,<p>,<p..>} (len<=3 quick / <=4 thorough) x every path over {a,b,c} (len<=4 / <=5); "
                "random patterns/paths with ?,#,/,empty and non-ASCII segments; every segment list over each derived enum's vocabulary (len<=4..7); "
                "random URL strings. distinct = distinct request line; non-trivial = pattern has a dynamic segment / URL yields >=1 segment",
        "exhaustive_blocks_quick": "patterns len<=3 x paths len<=4 (alphabets above); enum vocabularies up to len 4/5/5",
        "exhaustive_blocks_thorough": "patterns len<=4 x paths len<=5; enum vocabularies up to len 5/7/7",
        "trusted": ["u32::from_str modelled by parseU32 (optional '+', ASCII digits, < 2^32); String::from_str is the identity",
                    "derive(Route) expansion is modelled (matchVariants/parseFields), the three harness enums are transcribed by hand into Driver/Route.lean; the macro's compile-time checks (field count) are assumed as WFVariant"],
        "assumptions": ["patterns satisfy the property's own premise: <p..> is last or followed by a static segment"],
    },
}
